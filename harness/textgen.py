"""C19 text level: surface syntax of Polar programs as token lists, the reference grammar of
coq/theories/Parse.v / ParseCond.v mirrored in Python (and cross-checked against the proven
Coq functions by the check), spellings of one program AST, and single-token mutations.

Surface arithmetic (mirrors Parse.sx):
  ("num", m, k)  decimal literal m / 10^k | ("var", x) | ("neg", a) | ("add", a, b) | ("sub", a, b)
  | ("mul", a, b) | ("div", a, b) | ("pow", a, b)
Surface conditions (mirrors ParseCond.sc):
  ("true",) | ("false",) | ("atom", a, cop, b) | ("not", c) | ("and", c1, c2) | ("or", c1, c2)
Tokens: ("NUM", m, k, style) | ("ID", x) | ("NAME", X) | ("COP", op) | plain strings for
operators, brackets, keywords and "NL"."""
from fractions import Fraction

OPS_ADD = {"+": "add", "-": "sub"}
OPS_MUL = {"*": "mul", "/": "div"}
COPS = ["==", "<=", ">=", "<", ">"]


class Reject(Exception):
    """the reference grammar rejects the token list"""


# =========================================================================================
# reference grammar (mirror of Parse.v: sum/term/factor/power/atom; ParseCond.v: cnd/prim)
# =========================================================================================
def _is_num(t):
    return isinstance(t, tuple) and t[0] == "NUM"


def _is_id(t):
    return isinstance(t, tuple) and t[0] == "ID"


def _is_cop(t):
    return isinstance(t, tuple) and t[0] == "COP"


def p_atom(ts, i):
    if i >= len(ts):
        raise Reject("eof")
    t = ts[i]
    if _is_num(t):
        return ("num", t[1], t[2]), i + 1
    if _is_id(t):
        return ("var", t[1]), i + 1
    if t == "(":
        a, j = p_sum(ts, i + 1)
        if j < len(ts) and ts[j] == ")":
            return a, j + 1
        raise Reject("missing )")
    raise Reject(f"atom at {t!r}")


def p_factor(ts, i):
    if i < len(ts) and ts[i] == "-":
        a, j = p_factor(ts, i + 1)
        return ("neg", a), j
    a, j = p_atom(ts, i)
    if j < len(ts) and ts[j] == "**":
        b, j2 = p_factor(ts, j + 1)
        return ("pow", a, b), j2
    return a, j


def p_term(ts, i):
    acc, j = p_factor(ts, i)
    while j < len(ts) and ts[j] in OPS_MUL and isinstance(ts[j], str):
        b, j2 = p_factor(ts, j + 1)
        acc = (OPS_MUL[ts[j]], acc, b)
        j = j2
    return acc, j


def p_sum(ts, i):
    acc, j = p_term(ts, i)
    while j < len(ts) and isinstance(ts[j], str) and ts[j] in OPS_ADD:
        b, j2 = p_term(ts, j + 1)
        acc = (OPS_ADD[ts[j]], acc, b)
        j = j2
    return acc, j


def parse_expr(ts):
    """whole list -> sx or None (Parse.parse_expr)"""
    try:
        e, j = p_sum(ts, 0)
    except Reject:
        return None
    return e if j == len(ts) else None


def p_atomc(ts, i):
    a, j = p_sum(ts, i)
    if j < len(ts) and _is_cop(ts[j]):
        b, j2 = p_sum(ts, j + 1)
        return ("atom", a, ts[j][1], b), j2
    raise Reject("no comparison")


def p_paren_c(ts, i):
    if i < len(ts) and ts[i] == "(":
        c, j = p_cond(ts, i + 1)
        if j < len(ts) and ts[j] == ")":
            return c, j + 1
    raise Reject("paren cond")


def p_prim(ts, i):
    if i >= len(ts):
        raise Reject("eof")
    t = ts[i]
    if t == "true":
        return ("true",), i + 1
    if t == "false":
        return ("false",), i + 1
    if t == "!":
        c, j = p_paren_c(ts, i + 1)
        return ("not", c), j
    try:
        return p_atomc(ts, i)
    except Reject:
        return p_paren_c(ts, i)


def p_cond(ts, i):
    c1, j = p_prim(ts, i)
    if j < len(ts) and ts[j] in ("&&", "||") and isinstance(ts[j], str):
        c2, j2 = p_cond(ts, j + 1)
        return ("and" if ts[j] == "&&" else "or", c1, c2), j2
    return c1, j


def parse_cond(ts):
    try:
        c, j = p_cond(ts, 0)
    except Reject:
        return None
    return c if j == len(ts) else None


# =========================================================================================
# printers (mirror of Parse.print_full / print_min / relation pr)
# =========================================================================================
LEVEL = {"add": 0, "sub": 0, "mul": 1, "div": 1, "neg": 2, "pow": 3, "num": 4, "var": 4}
SYM = {"add": "+", "sub": "-", "mul": "*", "div": "/"}


def num_tok(e, style="plain"):
    return ("NUM", e[1], e[2], style)


def print_spelling(e, extra=None, level=0, bare=False):
    """token list of e standing at grammar level `level` (relation Parse.pr).  extra() -> number
    of redundant parenthesis pairs to put around this node (None: minimal printer).
    bare: this node directly follows a unary minus — Polar's lexer only knows a sign glued to a
    NUM/ID atom, so no redundant parentheses may separate them."""
    k = e[0]
    if k == "num":
        body = [num_tok(e, e[3] if len(e) > 3 else "plain")]
    elif k == "var":
        body = [("ID", e[1])]
    elif k == "neg":
        body = ["-"] + print_spelling(e[1], extra, 2, True)
    elif k in ("add", "sub"):
        body = print_spelling(e[1], extra, 0) + [SYM[k]] + print_spelling(e[2], extra, 1)
    elif k in ("mul", "div"):
        body = print_spelling(e[1], extra, 1) + [SYM[k]] + print_spelling(e[2], extra, 2)
    elif k == "pow":
        body = print_spelling(e[1], extra, 4, bare) + ["**"] + print_spelling(e[2], extra, 2)
    else:
        raise ValueError(e)
    layers = 1 if LEVEL[k] < level else 0
    if extra is not None and not bare:
        layers += extra()
    for _ in range(layers):
        body = ["("] + body + [")"]
    return body


def print_min(e):
    return print_spelling(e, None, 0)


def print_full(e):
    k = e[0]
    if k == "num":
        return [num_tok(e)]
    if k == "var":
        return [("ID", e[1])]
    if k == "neg":
        return ["(", "-"] + print_full(e[1]) + [")"]
    if k == "pow":
        return ["("] + print_full(e[1]) + ["**"] + print_full(e[2]) + [")"]
    return ["("] + print_full(e[1]) + [SYM[k]] + print_full(e[2]) + [")"]


def printc_spelling(c, extra=None, level=0, eextra=None):
    k = c[0]
    if k in ("true", "false"):
        body = [k]
    elif k == "atom":
        body = print_spelling(c[1], eextra, 0) + [("COP", c[2])] + print_spelling(c[3], eextra, 0)
    elif k == "not":
        body = ["!", "("] + printc_spelling(c[1], extra, 0, eextra) + [")"]
    else:
        body = printc_spelling(c[1], extra, 1, eextra) + ["&&" if k == "and" else "||"] + \
            printc_spelling(c[2], extra, 0, eextra)
    layers = 1 if (k in ("and", "or") and level >= 1) else 0
    if extra is not None:
        layers += extra()
    for _ in range(layers):
        body = ["("] + body + [")"]
    return body


def strip_style(ts):
    return [("NUM", t[1], t[2]) if _is_num(t) else t for t in ts]


# =========================================================================================
# values and polynomials (mirror of ParseSem.sx_eval / to_expr)
# =========================================================================================
def numval(e):
    return Fraction(e[1], 10 ** e[2])


def sx_eval(e, env):
    """Python semantics over Q; None where undefined (division by 0, non-integer exponent)"""
    k = e[0]
    if k == "num":
        return numval(e)
    if k == "var":
        return Fraction(env[e[1]])
    if k == "neg":
        a = sx_eval(e[1], env)
        return None if a is None else -a
    a = sx_eval(e[1], env)
    b = sx_eval(e[2], env)
    if a is None or b is None:
        return None
    if k == "add":
        return a + b
    if k == "sub":
        return a - b
    if k == "mul":
        return a * b
    if k == "div":
        return None if b == 0 else a / b
    if k == "pow":
        if b.denominator != 1 or abs(b.numerator) > 12:
            return None
        if b >= 0:
            return a ** int(b)
        return None if a == 0 else 1 / (a ** int(-b))
    raise ValueError(e)


class NotPoly(Exception):
    pass


def pmul(p, q):
    out = {}
    for m1, c1 in p.items():
        for m2, c2 in q.items():
            d = dict(m1)
            for v, k in m2:
                d[v] = d.get(v, 0) + k
            m = tuple(sorted(d.items()))
            out[m] = out.get(m, 0) + c1 * c2
    return {m: c for m, c in out.items() if c != 0}


def padd(p, q, s=1):
    out = dict(p)
    for m, c in q.items():
        out[m] = out.get(m, 0) + s * c
    return {m: c for m, c in out.items() if c != 0}


def pconst(c):
    c = Fraction(c)
    return {(): c} if c != 0 else {}


def closed_val(e):
    try:
        return sx_eval(e, {})
    except KeyError:
        return None


def to_poly(e):
    """polynomial {monomial tuple ((var, k), ...): Fraction}; NotPoly outside the fragment"""
    k = e[0]
    if k == "num":
        return pconst(numval(e))
    if k == "var":
        return {((e[1], 1),): Fraction(1)}
    if k == "neg":
        return padd({}, to_poly(e[1]), -1)
    if k == "add":
        return padd(to_poly(e[1]), to_poly(e[2]))
    if k == "sub":
        return padd(to_poly(e[1]), to_poly(e[2]), -1)
    if k == "mul":
        return pmul(to_poly(e[1]), to_poly(e[2]))
    if k == "div":
        v = closed_val(e[2])
        if v is None or v == 0:
            raise NotPoly(e)
        return pmul(to_poly(e[1]), pconst(1 / v))
    if k == "pow":
        v = closed_val(e[2])
        if v is None or v.denominator != 1 or v < 0 or v > 8:
            raise NotPoly(e)
        r = pconst(1)
        b = to_poly(e[1])
        for _ in range(int(v)):
            r = pmul(r, b)
        return r
    raise ValueError(e)


def poly_dump(p):
    """canonical JSON form: sorted list of [coeff "p/q", [[var, k], ...]]"""
    out = [[f"{c.numerator}/{c.denominator}", [[v, k] for v, k in m]] for m, c in p.items()]
    out.sort(key=lambda t: (t[1], t[0]))
    return out


# =========================================================================================
# Coq terms (cross-check of this mirror against the proven functions)
# =========================================================================================
COQ_COP = {"==": "Oeq", "<=": "Ole", ">=": "Oge", "<": "Olt", ">": "Ogt", "/=": "One"}
COQ_TOK = {"+": "TPlus", "-": "TMinus", "*": "TStar", "/": "TSlash", "**": "TPow", "(": "TLp", ")": "TRp",
           "true": "TTrue", "false": "TFalse", "!": "TNot", "&&": "TAnd", "||": "TOr"}


def coq_tok(t):
    if _is_num(t):
        return f"TNum {t[1]} {t[2]}"
    if _is_id(t):
        return f'TId "{t[1]}"'
    if _is_cop(t):
        return f"TCop {COQ_COP[t[1]]}"
    return COQ_TOK[t]


def coq_toks(ts):
    return "[" + "; ".join(coq_tok(t) for t in ts) + "]"


def coq_sx(e):
    k = e[0]
    if k == "num":
        return f"(XNum {e[1]} {e[2]})"
    if k == "var":
        return f'(XVar "{e[1]}")'
    if k == "neg":
        return f"(XNeg {coq_sx(e[1])})"
    return f"(X{k.capitalize()} {coq_sx(e[1])} {coq_sx(e[2])})"


def coq_sc(c):
    k = c[0]
    if k == "true":
        return "KTrue"
    if k == "false":
        return "KFalse"
    if k == "atom":
        return f"(KAtom {coq_sx(c[1])} {COQ_COP[c[2]]} {coq_sx(c[3])})"
    if k == "not":
        return f"(KNot {coq_sc(c[1])})"
    return f"(K{k.capitalize()} {coq_sc(c[1])} {coq_sc(c[2])})"


def strip_sx(e):
    """drop the literal style annotation"""
    if e[0] == "num":
        return ("num", e[1], e[2])
    if e[0] == "var":
        return e
    return (e[0],) + tuple(strip_sx(a) for a in e[1:])


def strip_sc(c):
    if c[0] == "atom":
        return ("atom", strip_sx(c[1]), c[2], strip_sx(c[3]))
    if c[0] in ("true", "false"):
        return c
    return (c[0],) + tuple(strip_sc(a) for a in c[1:])


# =========================================================================================
# programs: progast AST -> surface tokens under a spelling, and the model of the parser's
# structure transformer (canonical dump)
# =========================================================================================
def is_term_dec(q):
    d = Fraction(q).denominator
    while d % 2 == 0:
        d //= 2
    while d % 5 == 0:
        d //= 5
    return d == 1


def dec_parts(q):
    """q >= 0 terminating -> (m, k) with q = m / 10^k, k minimal (>= 1 when not integer)"""
    q = Fraction(q)
    k = 0
    while (q * 10 ** k).denominator != 1:
        k += 1
    return int(q * 10 ** k), k


class Spelling:
    """one way of writing a program; all fields are choices the property calls meaning-preserving"""

    def __init__(self, rng=None, **kw):
        self.rng = rng
        self.ws = kw.get("ws", "normal")            # normal | tight | wide
        self.comments = kw.get("comments", False)
        self.blank = kw.get("blank", False)
        self.crlf = kw.get("crlf", False)
        self.parens = kw.get("parens", "min")       # min | full | random
        self.consts = kw.get("consts", "frac")      # frac | dec
        self.last_prob = kw.get("last_prob", "explicit")   # explicit | implicit
        self.simult = kw.get("simult", "simult")    # simult | temps
        self.elif_ = kw.get("elif_", "elif")        # elif | nested
        self.types_comment = kw.get("types_comment", False)   # comment LINE inside the types block
        self.kinds = kw.get("kinds", [])
        self._tmp = 0

    def extra(self):
        if self.parens == "min":
            return None
        if self.parens == "full":
            return lambda: 1
        return lambda: self.rng.choice([0, 0, 0, 0, 1, 1, 2])

    def describe(self):
        return {"ws": self.ws, "comments": self.comments, "blank": self.blank, "crlf": self.crlf, "parens": self.parens,
                "consts": self.consts, "last_prob": self.last_prob, "simult": self.simult, "elif": self.elif_,
                "types_comment": self.types_comment}


def surf_const(q, sp):
    q = Fraction(q)
    neg = q < 0
    a = abs(q)
    if a.denominator == 1:
        e = ("num", a.numerator, 0)
        return ("neg", e) if neg else e
    if sp.consts == "dec" and is_term_dec(a):
        m, k = dec_parts(a)
        style = "plain"
        if sp.rng is not None:
            style = sp.rng.choice(["plain", "plain", "zeros", "nolead"])
        e = ("num", m, k, style)
        return ("neg", e) if neg else e
    n = ("num", a.numerator, 0)
    return ("div", ("neg", n) if neg else n, ("num", a.denominator, 0))


def surf_expr(e, sp):
    k = e[0]
    if k == "const":
        return surf_const(e[1], sp)
    if k == "var":
        return e
    if k in ("add", "sub", "mul"):
        return (k, surf_expr(e[1], sp), surf_expr(e[2], sp))
    if k == "div":
        return ("div", surf_expr(e[1], sp), surf_expr(e[2], sp))
    if k == "pow":
        return ("pow", surf_expr(e[1], sp), ("num", int(e[2]), 0))
    if k == "neg":
        a = surf_expr(e[1], sp)
        if a[0] in ("num", "var"):
            return ("neg", a)
        return ("mul", ("neg", ("num", 1, 0)), a)      # Polar has no unary minus on compound terms
    raise ValueError(e)


def surf_cond(c, sp):
    k = c[0]
    if k in ("true", "false"):
        return c
    if k == "atom":
        return ("atom", surf_expr(c[1], sp), c[2], surf_expr(c[3], sp))
    if k == "not":
        return ("not", surf_cond(c[1], sp))
    return (k, surf_cond(c[1], sp), surf_cond(c[2], sp))


def expr_toks(e, sp):
    return print_spelling(surf_expr(e, sp), sp.extra(), 0)


def cond_toks(c, sp):
    ex = sp.extra()
    return printc_spelling(surf_cond(c, sp), ex, 0, ex)


def polar_ok(ts):
    """Polar's grammar only has a sign glued to a NUM/ID atom: every unary '-' must be followed by one"""
    for i, t in enumerate(ts):
        if t == "-":
            unary = i == 0 or (isinstance(ts[i - 1], str) and ts[i - 1] not in (")",)) or _is_cop(ts[i - 1])
            if unary and not (i + 1 < len(ts) and (_is_num(ts[i + 1]) or _is_id(ts[i + 1]))):
                return False
    return True


def explicit_last(alts):
    """progast choice alternatives always carry all probabilities"""
    return alts


def rhs_toks(r, sp):
    if r[0] == "draw":
        d = r[1]
        if d[0] == "bern":
            name, args = "Bernoulli", [expr_toks(d[1], sp)]
        elif d[0] == "cat":
            name, args = "Categorical", [expr_toks(p, sp) for p in d[1]]
        elif d[0] == "unif":
            name, args = "DiscreteUniform", [expr_toks(("const", Fraction(d[1])), sp), expr_toks(("const", Fraction(d[2])), sp)]
        else:
            name, args = d[1], [expr_toks(p, sp) for p in d[2]]
        out = [("NAME", name), "("]
        for i, a in enumerate(args):
            if i:
                out.append(",")
            out += a
        return out + [")"]
    alts = r[1]
    if len(alts) == 1:
        return expr_toks(alts[0][1], sp)
    out = []
    for i, (p, e) in enumerate(alts):
        out += expr_toks(e, sp)
        if i < len(alts) - 1 or sp.last_prob == "explicit":
            out += ["{"] + expr_toks(p, sp) + ["}"]
    return out


def stmt_toks(s, sp):
    k = s[0]
    if k == "assign":
        return [("ID", s[1]), "="] + rhs_toks(s[2], sp) + ["NL"]
    if k == "simult":
        if sp.simult == "temps":
            out = []
            names = []
            for x, r in s[1]:
                t = f"_w{sp._tmp}"
                sp._tmp += 1
                names.append(t)
                out += [("ID", t), "="] + rhs_toks(r, sp) + ["NL"]
            for (x, r), t in zip(s[1], names):
                out += [("ID", x), "=", ("ID", t), "NL"]
            return out
        out = []
        for i, (x, _) in enumerate(s[1]):
            if i:
                out.append(",")
            out.append(("ID", x))
        out.append("=")
        for i, (_, r) in enumerate(s[1]):
            if i:
                out.append(",")
            out += rhs_toks(r, sp)
        return out + ["NL"]
    if k == "if":
        brs, els = s[1], s[2]
        if sp.elif_ == "nested" and len(brs) > 1:
            inner = ("if", brs[1:], els)
            return stmt_toks(("if", brs[:1], [inner]), sp)
        out = []
        for i, (c, b) in enumerate(brs):
            out += ["if" if i == 0 else "elif"] + cond_toks(c, sp) + [":", "NL", "IN"]
            out += block_toks(b, sp) + ["OUT"]
        if els is not None:
            out += ["else", ":", "NL", "IN"] + block_toks(els, sp) + ["OUT"]
        return out + ["end", "NL"]
    raise ValueError(s)


def block_toks(b, sp):
    out = []
    for s in b:
        out += stmt_toks(s, sp)
    return out


def prog_toks(p, sp):
    sp._tmp = 0
    out = []
    if p.get("types"):
        out += ["types", "NL", "IN", "TYPES_IN"]
        for v, vals in p["types"]:
            out += [("ID", v), ":", ("NAME", "Finite"), "("]
            for i, x in enumerate(vals):
                if i:
                    out.append(",")
                out += expr_toks(("const", Fraction(x)), sp)
            out += [")", "NL"]
        out += ["TYPES_OUT", "OUT", "end", "NL"]
    out += block_toks(p["init"], sp)
    out += ["while"] + cond_toks(p["guard"], sp) + [":", "NL", "IN"] + block_toks(p["body"], sp) + ["OUT", "end", "NL"]
    return out


# ---- rendering ------------------------------------------------------------------------------
def num_text(t):
    m, k = t[1], t[2]
    style = t[3] if len(t) > 3 else "plain"
    if k == 0:
        return str(m)
    s = str(m).rjust(k + 1, "0")
    ip, fp = s[:-k], s[-k:]
    if style == "zeros":
        fp += "0"
    if style == "nolead" and ip == "0":
        ip = ""
    return f"{ip}.{fp}"


def tok_text(t):
    if _is_num(t):
        return num_text(t)
    if isinstance(t, tuple):
        return t[1]
    return t


WORDS = {"if", "elif", "else", "end", "while", "types", "true", "false"}


def _alnum_edge(s, last):
    ch = s[-1] if last else s[0]
    return ch.isalnum() or ch in "_."


COMMENTS = ["# c", "#", "# x = 1", "#end", "# while true:", "## {1/2} (", "#\t tab"]


def render(tokens, sp):
    """token stream -> text.  Whitespace only BETWEEN tokens; a unary minus stays glued to its atom
    (in Polar's lexer the sign is part of the atom token)."""
    rng = sp.rng
    lines = []
    cur = ""
    prev = None
    depth = 0
    in_types = False
    unary_glue = False

    def indent():
        if sp.ws == "wide" and rng is not None:
            return rng.choice(["", " ", "\t", "      "]) * max(1, depth) if depth else rng.choice(["", "  "])
        if sp.ws == "tight":
            return ""
        return "    " * depth

    def newline():
        nonlocal cur
        line = cur
        if sp.comments and rng is not None and rng.random() < 0.35 and line.strip():
            line += rng.choice(["", " ", "\t"]) + rng.choice(COMMENTS)
        if sp.ws == "wide" and rng is not None and rng.random() < 0.3:
            line += rng.choice([" ", "\t ", "   "])
        lines.append(line)
        if in_types and not sp.types_comment:
            extra_ok = sp.blank          # blank lines are fine inside types, comment lines are not
            if extra_ok and rng is not None and rng.random() < 0.3:
                lines.append(rng.choice(["", "   "]))
        elif in_types and sp.types_comment:
            lines.append(indent() + "# about the next variable")
        else:
            if sp.blank and rng is not None and rng.random() < 0.3:
                lines.append(rng.choice(["", "  ", "\t"]))
            if sp.comments and rng is not None and rng.random() < 0.25:
                lines.append(indent() + rng.choice(COMMENTS))
        cur = ""

    for i, t in enumerate(tokens):
        if t == "IN":
            depth += 1
            continue
        if t == "OUT":
            depth -= 1
            continue
        if t == "TYPES_IN":
            in_types = True
            continue
        if t == "TYPES_OUT":
            in_types = False
            continue
        if t == "NL":
            newline()
            prev = None
            continue
        s = tok_text(t)
        if prev is None:
            cur = indent() + s
        else:
            if unary_glue:
                sep = ""
            elif sp.ws == "tight":
                sep = " " if (_alnum_edge(tok_text(prev), True) and _alnum_edge(s, False)) else ""
            elif sp.ws == "wide" and rng is not None:
                need = _alnum_edge(tok_text(prev), True) and _alnum_edge(s, False)
                sep = rng.choice([" ", "  ", "\t", " \t "] + ([] if need else [""]))
            else:
                if s in (")", ",", "}", ":") or tok_text(prev) in ("(", "{") or (tok_text(prev) == "!" ):
                    sep = ""
                elif s == "(" and isinstance(prev, tuple) and prev[0] == "NAME":
                    sep = ""
                else:
                    sep = " "
            cur += sep + s
        # is this '-' unary?  (then the next token must be glued)
        unary_glue = False
        if t == "-":
            j = i - 1
            while j >= 0 and tokens[j] in ("IN", "OUT", "TYPES_IN", "TYPES_OUT"):
                j -= 1
            pt = tokens[j] if j >= 0 else None
            if pt is None or pt == "NL" or (isinstance(pt, str) and pt != ")") or _is_cop(pt):
                unary_glue = True
        prev = t
    if cur:
        lines.append(cur)
    if sp.blank and rng is not None and rng.random() < 0.5:
        lines = [""] * rng.randint(1, 2) + lines
    if sp.comments and rng is not None and rng.random() < 0.5:
        lines = ["# header comment"] + lines
    nl = "\r\n" if sp.crlf else "\n"
    text = nl.join(lines)
    if rng is None or rng.random() < 0.8:
        text += nl
    return text


def prog_text(p, sp):
    return render(prog_toks(p, sp), sp)


# ---- the model of the structure transformer: canonical dump of a progast program ------------
def pg_to_sx(e):
    """progast expression -> surface expression (fractions as quotients), for exact expansion"""
    return surf_expr(e, Spelling())


def pg_poly(e):
    return to_poly(pg_to_sx(e))


def cond_dump(c):
    k = c[0]
    if k in ("true", "false"):
        return [k]
    if k == "atom":
        a, op, b = pg_poly(c[1]), c[2], pg_poly(c[3])
        if op in (">", ">="):
            a, b = b, a
            op = "<" if op == ">" else "<="
        return ["atom", poly_dump(padd(a, b, -1)), op]
    if k == "not":
        return ["not", cond_dump(c[1])]
    return [k, cond_dump(c[1]), cond_dump(c[2])]


def rhs_dump(r):
    if r[0] == "draw":
        d = r[1]
        if d[0] == "bern":
            return ["draw", "Bernoulli", [poly_dump(pg_poly(d[1]))]]
        if d[0] == "cat":
            return ["draw", "Categorical", [poly_dump(pg_poly(p)) for p in d[1]]]
        if d[0] == "unif":
            return ["draw", "DiscreteUniform", [poly_dump(pconst(d[1])), poly_dump(pconst(d[2]))]]
        return ["draw", d[1], [poly_dump(pg_poly(p)) for p in d[2]]]
    return ["choice", [[poly_dump(pg_poly(p)), poly_dump(pg_poly(e))] for p, e in r[1]]]


class _Names:
    def __init__(self):
        self.k = 0

    def fresh(self):
        self.k += 1
        return f"_t{self.k - 1}"


def stmts_dump(b, names):
    out = []
    for s in b:
        k = s[0]
        if k == "assign":
            out.append(["assign", s[1], rhs_dump(s[2])])
        elif k == "simult":
            ts = [names.fresh() for _ in s[1]]
            for (x, r), t in zip(s[1], ts):
                out.append(["assign", t, rhs_dump(r)])
            for (x, r), t in zip(s[1], ts):
                out.append(["assign", x, ["choice", [[poly_dump(pconst(1)), poly_dump({((t, 1),): Fraction(1)})]]]])
        elif k == "if":
            out.append(if_dump(s, names))
        else:
            raise ValueError(s)
    return out


def if_dump(s, names):
    brs = [[cond_dump(c), stmts_dump(b, names)] for c, b in s[1]]
    els = stmts_dump(s[2], names) if s[2] is not None else None
    return flatten_if(["if", brs, els])


def flatten_if(node):
    """canonical form (elif_is_nested_else_if): an else block that is exactly one if is merged"""
    _, brs, els = node
    while els is not None and len(els) == 1 and els[0][0] == "if":
        brs = brs + els[0][1]
        els = els[0][2]
    return ["if", brs, els]


def alpha_normalise(dump):
    """rename generated names (leading underscore) by first assignment; re-sort polynomials"""
    ren = {}

    def collect(stmts):
        for s in stmts:
            if s[0] == "assign":
                if s[1].startswith("_") and s[1] not in ren:
                    ren[s[1]] = f"_#{len(ren)}"
            else:
                for _, b in s[1]:
                    collect(b)
                if s[2] is not None:
                    collect(s[2])

    collect(dump["init"])
    collect(dump["body"])

    def rn(v):
        return ren.get(v, v)

    def poly(p):
        q = [[c, sorted([[rn(v), k] for v, k in m])] for c, m in p]
        q.sort(key=lambda t: (t[1], t[0]))
        return q

    def cond(c):
        if c[0] == "atom":
            return ["atom", poly(c[1]), c[2]]
        if c[0] in ("true", "false"):
            return c
        return [c[0]] + [cond(x) for x in c[1:]]

    def rhs(r):
        if r[0] == "choice":
            return ["choice", [[poly(p), poly(e)] for p, e in r[1]]]
        if r[0] == "draw":
            return ["draw", r[1], [poly(p) if isinstance(p, list) else p for p in r[2]]]
        return r

    def stmts(b):
        out = []
        for s in b:
            if s[0] == "assign":
                out.append(["assign", rn(s[1]), rhs(s[2])])
            else:
                out.append(["if", [[cond(c), stmts(bb)] for c, bb in s[1]], stmts(s[2]) if s[2] is not None else None])
        return out

    return {"types": dump.get("types", []), "init": stmts(dump["init"]), "guard": cond(dump["guard"]),
            "body": stmts(dump["body"])}


def model_dump(p):
    names = _Names()
    types = sorted([[v, sorted(poly_dump(pconst(x)) for x in vals)] for v, vals in (p.get("types") or [])])
    d = {"types": types, "init": stmts_dump(p["init"], names), "guard": cond_dump(p["guard"]),
         "body": stmts_dump(p["body"], names)}
    return alpha_normalise(d)


# =========================================================================================
# reference grammar of whole programs over the token stream (decides validity of mutants)
# =========================================================================================
def _strip_layout(ts):
    return [t for t in strip_style(ts) if t not in ("IN", "OUT", "TYPES_IN", "TYPES_OUT")]


def _expect(ts, i, t):
    if i < len(ts) and ts[i] == t:
        return i + 1
    raise Reject(f"expected {t!r} at {i}")


def _is_name(t):
    return isinstance(t, tuple) and t[0] == "NAME"


def p_args(ts, i):
    """"(" [sum ("," sum)*] ")" -> (n_args, next)"""
    i = _expect(ts, i, "(")
    n = 0
    if i < len(ts) and ts[i] == ")":
        return 0, i + 1
    while True:
        _, i = p_sum(ts, i)
        n += 1
        if i < len(ts) and ts[i] == ",":
            i += 1
            continue
        return n, _expect(ts, i, ")")


DIST_ARITY = {"Bernoulli": (1, 1), "DiscreteUniform": (2, 2), "Categorical": (1, 99), "Normal": (2, 2), "Uniform": (2, 2),
              "Laplace": (2, 2), "DistExp": (1, 1), "Beta": (2, 2), "Gamma": (2, 2), "TruncNormal": (4, 4)}


def p_rhs(ts, i):
    if i < len(ts) and _is_name(ts[i]):
        name = ts[i][1]
        n, j = p_args(ts, i + 1)
        if name not in DIST_ARITY or not (DIST_ARITY[name][0] <= n <= DIST_ARITY[name][1]):
            raise Reject("distribution")      # constructor RuntimeError in Polar
        return j
    _, i = p_sum(ts, i)
    pairs = 0
    while i < len(ts) and ts[i] == "{":
        _, i = p_sum(ts, i + 1)
        i = _expect(ts, i, "}")
        pairs += 1
        if i < len(ts) and (ts[i] == "NL" or ts[i] == ","):
            if pairs < 2:
                raise Reject("single value with a probability")
            return i
        _, i = p_sum(ts, i)
    return i


def p_stmt(ts, i):
    if i < len(ts) and ts[i] == "if":
        _, i = p_cond(ts, i + 1)
        i = _expect(ts, _expect(ts, i, ":"), "NL")
        i = p_stmts1(ts, i)
        while i < len(ts) and ts[i] == "elif":
            _, i = p_cond(ts, i + 1)
            i = _expect(ts, _expect(ts, i, ":"), "NL")
            i = p_stmts1(ts, i)
        if i < len(ts) and ts[i] == "else":
            i = _expect(ts, _expect(ts, i + 1, ":"), "NL")
            i = p_stmts1(ts, i)
        return _expect(ts, _expect(ts, i, "end"), "NL")
    if i < len(ts) and _is_id(ts[i]):
        nv = 1
        i += 1
        while i < len(ts) and ts[i] == ",":
            if not (i + 1 < len(ts) and _is_id(ts[i + 1])):
                raise Reject("variable list")
            nv += 1
            i += 2
        i = _expect(ts, i, "=")
        nr = 1
        i = p_rhs(ts, i)
        while i < len(ts) and ts[i] == ",":
            i = p_rhs(ts, i + 1)
            nr += 1
        if nv != nr:
            raise Reject("simultaneous assignment arity")     # ParseException in Polar
        return _expect(ts, i, "NL")
    raise Reject(f"statement at {i}")


def p_stmts1(ts, i):
    i = p_stmt(ts, i)
    while i < len(ts) and (ts[i] == "if" or _is_id(ts[i])):
        i = p_stmt(ts, i)
    return i


def program_valid(tokens):
    """does the reference grammar accept the token stream of a whole program?"""
    ts = _strip_layout(tokens)
    try:
        i = 0
        if i < len(ts) and ts[i] == "types":
            i = _expect(ts, i + 1, "NL")
            n = 0
            while i < len(ts) and _is_id(ts[i]):
                i = _expect(ts, i + 1, ":")
                if not (i < len(ts) and _is_name(ts[i]) and ts[i][1] in ("Finite", "FiniteRange")):
                    raise Reject("type name")
                k, i = p_args(ts, i + 1)
                if k == 0:
                    raise Reject("empty type")
                i = _expect(ts, i, "NL")
                n += 1
            if n == 0:
                raise Reject("no typedef")
            i = _expect(ts, _expect(ts, i, "end"), "NL")
        while i < len(ts) and (ts[i] == "if" or _is_id(ts[i])):
            i = p_stmt(ts, i)
        i = _expect(ts, i, "while")
        _, i = p_cond(ts, i)
        i = _expect(ts, _expect(ts, i, ":"), "NL")
        i = p_stmts1(ts, i)
        i = _expect(ts, i, "end")
        if i < len(ts) and ts[i] == "NL":
            i += 1
        return i == len(ts)
    except Reject:
        return False


# =========================================================================================
# generators
# =========================================================================================
VARS = ["x", "y", "z", "u", "v1", "w_2"]
PROBS = [Fraction(1, 2), Fraction(1, 3), Fraction(1, 4), Fraction(2, 3), Fraction(1, 5), Fraction(3, 4), Fraction(1, 10),
         Fraction(3, 10), Fraction(1, 8)]
CONSTS = [0, 1, 2, 3, -1, -2, Fraction(1, 2), Fraction(-1, 2), Fraction(3, 4), Fraction(1, 3), Fraction(5, 2), Fraction(1, 10),
          Fraction(7, 20), 10, Fraction(-3, 8)]


def gen_sx(rng, depth, vs=("x", "y", "z"), polar=True):
    """random surface arithmetic; polar=True keeps unary minus on atoms / powers of atoms"""
    if depth <= 0 or rng.random() < 0.25:
        if rng.random() < 0.5:
            return ("var", rng.choice(vs))
        r = rng.random()
        if r < 0.7:
            return ("num", rng.randint(0, 9), 0)
        return ("num", rng.choice([5, 25, 125, 1, 75, 2, 15]), rng.choice([1, 2, 3]))
    r = rng.random()
    if r < 0.14:
        if polar:
            a = ("var", rng.choice(vs)) if rng.random() < 0.6 else ("num", rng.randint(1, 9), 0)
            if rng.random() < 0.4:
                a = ("pow", a, gen_exponent(rng, depth - 1, vs, polar))
            return ("neg", a)
        return ("neg", gen_sx(rng, depth - 1, vs, polar))
    if r < 0.34:
        return ("add", gen_sx(rng, depth - 1, vs, polar), gen_sx(rng, depth - 1, vs, polar))
    if r < 0.52:
        return ("sub", gen_sx(rng, depth - 1, vs, polar), gen_sx(rng, depth - 1, vs, polar))
    if r < 0.72:
        return ("mul", gen_sx(rng, depth - 1, vs, polar), gen_sx(rng, depth - 1, vs, polar))
    if r < 0.86:
        return ("div", gen_sx(rng, depth - 1, vs, polar), gen_sx(rng, depth - 1, vs, polar))
    return ("pow", gen_sx(rng, depth - 1, vs, polar), gen_exponent(rng, depth - 1, vs, polar))


def gen_exponent(rng, depth, vs, polar):
    r = rng.random()
    if r < 0.6:
        return ("num", rng.randint(0, 3), 0)
    if r < 0.75:
        return ("neg", ("num", rng.randint(1, 2), 0))
    if r < 0.9:
        return ("pow", ("num", rng.randint(1, 2), 0), ("num", rng.randint(0, 2), 0))     # 2**1**2 ...
    return ("sub", ("num", 3, 0), ("num", rng.randint(1, 2), 0)) if depth > 0 else ("num", 2, 0)


def long_decimal(rng, lo=17, hi=22, unit=False):
    """a rational whose decimal notation has 17-22 significant digits; with some probability one that
    differs from a short decimal only in its last (18th or later) digit.  unit: strictly between 0 and 1"""
    digits = rng.randint(lo, hi)
    if rng.random() < 0.4:
        short = Fraction(rng.choice([1, 2, 25, 5, 75, 125, 3, 1]), rng.choice([10, 100, 1000, 4, 8]))
        if not unit:
            short += rng.choice([0, 0, 1, 2, 17])
        k = max(digits, 18)
        q = short + Fraction(rng.choice([1, 1, 3, 7]), 10 ** k)
    else:
        m = rng.randint(10 ** (digits - 1), 10 ** digits - 1)
        if m % 10 == 0:
            m += rng.randint(1, 9)
        scale = digits if unit else rng.choice([digits, digits, digits - 1, digits - 10, digits + 2])
        q = Fraction(m, 10 ** scale)
    if unit and not (0 < q < 1):
        q = q - int(q)
        if q == 0:
            q = Fraction(1, 4) + Fraction(1, 10 ** 19)
    return q


def count_literals(e):
    """(number of numeric literals, number of decimal literals) in a surface expression"""
    if e[0] == "num":
        return 1, (1 if e[2] > 0 else 0)
    if e[0] == "var":
        return 0, 0
    n = d = 0
    for a in e[1:]:
        x, y = count_literals(a)
        n += x
        d += y
    return n, d


def may_combine_floats(e):
    """can the CAS combine a decimal literal of e with another numeric constant in float arithmetic?
    A lone decimal literal (the only numeral of its expression) cannot: it must be read exactly."""
    n, d = count_literals(e)
    if d == 0:
        return False
    if n >= 2:
        return True

    # a decimal literal as (part of) a divisor, a base or an exponent is transformed by the CAS itself
    # (z / 7.5 = z * (1/7.5): the reciprocal is computed in float arithmetic)
    def transformed(t):
        if t[0] in ("num", "var"):
            return False
        if t[0] == "div" and has_decimal(t[2]):
            return True
        if t[0] == "pow" and (has_decimal(t[1]) or has_decimal(t[2])):
            return True
        return any(transformed(a) for a in t[1:])

    if transformed(e):
        return True
    # one literal, but expansion may add copies of it to each other: (z + z + z) * 0.1
    occ = {}

    def walk(t):
        if t[0] == "var":
            occ[t[1]] = occ.get(t[1], 0) + 1
        elif t[0] != "num":
            for a in t[1:]:
                walk(a)

    walk(e)
    return any(k >= 2 for k in occ.values())


def has_decimal(e):
    if e[0] == "num":
        return e[2] > 0
    if e[0] == "var":
        return False
    return any(has_decimal(a) for a in e[1:])


class ProgGen:
    """progast programs for the parse-level correspondence: any syntactically valid program will do"""

    def __init__(self, rng, knobs=None):
        self.rng = rng
        k = knobs or {}
        self.compound_probs = k.get("compound_probs", rng.random() < 0.3)
        self.params = k.get("params", rng.random() < 0.3)
        self.decarith = k.get("decarith", rng.random() < 0.15)
        self.longdec = k.get("longdec", rng.random() < 0.35)
        self.types = k.get("types", rng.random() < 0.35)
        self.vars = VARS[:rng.randint(2, 5)]
        self.features = set()

    def const(self):
        if self.longdec and self.rng.random() < 0.3:
            self.features.add("long-decimal")
            q = long_decimal(self.rng)
            return ("const", -q if self.rng.random() < 0.2 else q)
        return ("const", Fraction(self.rng.choice(CONSTS)))

    def expr(self, depth):
        rng = self.rng
        if depth <= 0 or rng.random() < 0.3:
            r = rng.random()
            if r < 0.5:
                return ("var", rng.choice(self.vars))
            if r < 0.6 and self.params:
                return ("var", "p")
            return self.const()
        r = rng.random()
        if r < 0.3:
            return ("add", self.expr(depth - 1), self.expr(depth - 1))
        if r < 0.45:
            return ("sub", self.expr(depth - 1), self.expr(depth - 1))
        if r < 0.75:
            return ("mul", self.expr(depth - 1), self.expr(depth - 1))
        if r < 0.85:
            return ("pow", self.expr(depth - 1), rng.randint(0, 3))
        if r < 0.93:
            return ("neg", self.expr(depth - 1))
        if self.decarith:
            self.features.add("decimal-arithmetic")
            c1 = ("const", Fraction(rng.choice([1, 3, 7, 11]), rng.choice([10, 100, 20])))
            c2 = ("const", Fraction(1, rng.choice([3, 7, 9, 6])))
            return ("mul", ("mul", c1, ("var", rng.choice(self.vars))), c2)
        return ("mul", self.const(), ("var", rng.choice(self.vars)))

    def prob_exprs(self, k):
        """k probability expressions summing to 1 (constants, possibly written as sums / with a parameter)"""
        rng = self.rng
        if self.params and k == 2 and rng.random() < 0.5:
            self.features.add("param-prob")
            return [("var", "p"), ("sub", ("const", Fraction(1)), ("var", "p"))]
        den = rng.choice([2, 3, 4, 5, 6, 8, 10])
        cuts = sorted(rng.randint(0, den) for _ in range(k - 1))
        parts = [Fraction(b - a, den) for a, b in zip([0] + cuts, cuts + [den])]
        if self.longdec and rng.random() < 0.5:
            # probabilities with 17-22 significant digits: move a long amount between two entries
            self.features.add("long-decimal-prob")
            i, j = rng.sample(range(k), 2)
            if parts[i] > 0:
                eps = long_decimal(rng, unit=True) * parts[i]
                eps = Fraction(int(eps * 10 ** 21), 10 ** 21)
                if 0 < eps < parts[i]:
                    parts[i] -= eps
                    parts[j] += eps
            return [("const", q) for q in parts]
        out = []
        for q in parts:
            if self.compound_probs and q > 0 and rng.random() < 0.5:
                self.features.add("compound-prob")
                a = q / 2 if rng.random() < 0.5 else q * Fraction(1, 3)
                if rng.random() < 0.7:
                    out.append(("add", ("const", a), ("const", q - a)))
                else:
                    out.append(("sub", ("const", q + a), ("const", a)))
            else:
                out.append(("const", q))
        return out

    def rhs(self, allow_draw=True):
        rng = self.rng
        r = rng.random()
        if r < 0.4:
            return ("choice", [(("const", Fraction(1)), self.expr(2))])
        if r < 0.75 or not allow_draw:
            k = rng.randint(2, 4)
            self.features.add(f"choice{k}")
            return ("choice", list(zip(self.prob_exprs(k), [self.expr(1) for _ in range(k)])))
        r = rng.random()
        if r < 0.4:
            return ("draw", ("bern", self.prob_exprs(2)[0]))
        if r < 0.6:
            return ("draw", ("cat", self.prob_exprs(rng.randint(2, 4))))
        if r < 0.8:
            a = rng.randint(-2, 2)
            return ("draw", ("unif", a, a + rng.randint(1, 3)))
        fam = rng.choice(["Normal", "Uniform", "Laplace"])
        return ("draw", ("cont", fam, [self.const(), ("const", Fraction(rng.choice([1, 2, Fraction(1, 2)])))]))

    def cond(self, depth):
        rng = self.rng
        if depth <= 0 or rng.random() < 0.4:
            r = rng.random()
            if r < 0.08:
                return ("true",)
            if r < 0.12:
                return ("false",)
            return ("atom", self.expr(1), rng.choice(COPS), self.expr(1))
        r = rng.random()
        if r < 0.2:
            return ("not", self.cond(depth - 1))
        return ("and" if r < 0.6 else "or", self.cond(depth - 1), self.cond(depth - 1))

    def stmt(self, depth):
        rng = self.rng
        r = rng.random()
        if r < 0.5 or depth <= 0:
            return ("assign", rng.choice(self.vars), self.rhs())
        if r < 0.7:
            k = rng.randint(2, min(3, len(self.vars)))
            xs = rng.sample(self.vars, k)
            self.features.add("simult")
            return ("simult", [(x, self.rhs()) for x in xs])
        nb = rng.randint(1, 3)
        if nb > 1:
            self.features.add("elif")
        brs = [(self.cond(2), self.block(depth - 1)) for _ in range(nb)]
        els = self.block(depth - 1) if rng.random() < 0.6 else None
        return ("if", brs, els)

    def block(self, depth):
        return [self.stmt(depth) for _ in range(self.rng.randint(1, 3))]

    def prog(self):
        rng = self.rng
        init = [("assign", x, ("choice", [(("const", Fraction(1)), self.const())])) for x in self.vars]
        if rng.random() < 0.3:
            init.append(("assign", rng.choice(self.vars), self.rhs()))
        types = []
        if self.types:
            for x in rng.sample(self.vars, rng.randint(1, min(3, len(self.vars)))):
                types.append((x, sorted(set(rng.sample([0, 1, 2, 3, -1, Fraction(1, 2)], rng.randint(1, 3))))))
            self.features.add("types")
        return {"types": types, "init": init, "guard": self.cond(1) if rng.random() < 0.6 else ("true",),
                "body": self.block(2)}


def gen_analysable(rng):
    """finite discrete programs inside Polar's class (guard true, finite variables assigned at top level in
    every iteration, accumulators with updates linear in themselves), using the sugar C19 speaks of"""
    fin = ["f", "g"]
    vals = {"f": [0, 1], "g": rng.choice([[0, 1], [0, 1, 2], [1, 2]])}

    def fval(v):
        return ("const", Fraction(rng.choice(vals[v])))

    def probs(k):
        den = rng.choice([2, 3, 4, 5, 10])
        cuts = sorted(rng.randint(1, den - 1) for _ in range(k - 1))
        parts = [Fraction(b - a, den) for a, b in zip([0] + cuts, cuts + [den])]
        return [("const", q) for q in parts]

    def fchoice(v):
        k = rng.randint(2, 3)
        return ("choice", list(zip(probs(k), [fval(v) for _ in range(k)])))

    def lin(acc):
        c = ("const", Fraction(rng.choice([1, 2, Fraction(1, 2), -1, Fraction(3, 4)])))
        t = ("mul", c, ("var", acc))
        r = rng.random()
        if r < 0.4:
            return ("add", t, ("var", rng.choice(fin)))
        if r < 0.7:
            return ("add", t, ("mul", ("const", Fraction(rng.choice([2, 3, Fraction(1, 4)]))), ("var", rng.choice(fin))))
        return ("sub", t, ("const", Fraction(rng.choice([1, 2, Fraction(1, 10)]))))

    body = []
    shape = rng.choice(["simult", "elif", "both", "choice"])
    body.append(("assign", "f", ("draw", ("bern", probs(2)[0])) if rng.random() < 0.4 else fchoice("f")))
    body.append(("assign", "g", fchoice("g")))
    if shape in ("simult", "both"):
        one = ("const", Fraction(1))
        body.append(("simult", [("a", ("choice", [(one, lin("b") if rng.random() < 0.5 else lin("a"))])),
                                ("b", ("choice", list(zip(probs(2), [lin("a"), lin("b")]))) if rng.random() < 0.5
                                 else ("choice", [(one, lin("a"))]))]))
    if shape in ("elif", "both"):
        brs = [(("atom", ("var", "f"), "==", ("const", Fraction(1))), [("assign", "a", ("choice", [(("const", Fraction(1)), lin("a"))]))]),
               (("atom", ("var", "g"), rng.choice(["==", ">=", "<"]), ("const", Fraction(rng.choice(vals["g"])))),
                [("assign", "a", ("choice", list(zip(probs(2), [lin("a"), ("var", "b")]))))])]
        if rng.random() < 0.6:
            brs.append((("atom", ("var", "g"), "==", ("const", Fraction(vals["g"][-1]))), [("assign", "b", ("choice", [(("const", Fraction(1)), lin("b"))]))]))
        els = [("assign", "a", ("choice", [(("const", Fraction(1)), ("var", "f"))]))] if rng.random() < 0.7 else None
        body.append(("if", brs, els))
    if shape == "choice":
        k = rng.randint(2, 3)
        body.append(("assign", "a", ("choice", list(zip(probs(k), [lin("a") for _ in range(k)])))))
        body.append(("assign", "b", ("choice", list(zip(probs(2), [lin("b"), ("var", "a")])))))
    init = [("assign", "f", ("choice", [(("const", Fraction(1)), fval("f"))])),
            ("assign", "g", ("choice", [(("const", Fraction(1)), fval("g"))])),
            ("assign", "a", ("choice", [(("const", Fraction(1)), ("const", Fraction(rng.choice([0, 1, 2]))))])),
            ("assign", "b", ("choice", [(("const", Fraction(1)), ("const", Fraction(rng.choice([0, 1, -1]))))]))]
    return {"types": [], "init": init, "guard": ("true",), "body": body, "shape": shape}


def fixed_analysable():
    """hand-written analysable programs: an elif chain WITHOUT else whose conditions test DIFFERENT variables against
    different constants (both can hold at once, so the chain is not a set of independent ifs)"""
    F = Fraction
    one = ("const", F(1))
    det = lambda e: ("choice", [(one, e)])
    half = lambda a, b: ("choice", [(("const", F(1, 2)), ("const", F(a))), (("const", F(1, 2)), ("const", F(b)))])
    out = []
    for c2 in (0, 2):
        body = [("assign", "f", half(0, 1)), ("assign", "g", ("choice", [(("const", F(1, 3)), ("const", F(0))), (("const", F(1, 3)), ("const", F(1))),
                                                                         (("const", F(1, 3)), ("const", F(2)))])),
                ("if", [(("atom", ("var", "f"), "==", ("const", F(1))), [("assign", "a", det(("add", ("var", "a"), ("const", F(1)))))]),
                        (("atom", ("var", "g"), "==", ("const", F(c2))), [("assign", "a", det(("add", ("var", "a"), ("const", F(2))))),
                                                                        ("assign", "b", det(("add", ("var", "b"), ("var", "f"))))])], None)]
        init = [("assign", "f", det(("const", F(0)))), ("assign", "g", det(("const", F(0)))), ("assign", "a", det(("const", F(0)))),
                ("assign", "b", det(("const", F(1))))]
        out.append({"types": [], "init": init, "guard": ("true",), "body": body, "shape": "elif-no-else-different-variables"})
    return out


# ---- spellings of one program ---------------------------------------------------------------
SPELLING_KINDS = ["baseline", "tight", "wide", "comments", "blank", "crlf", "parens-full", "parens-random", "parens-min",
                  "decimal", "implicit-last", "temporaries", "nested-else-if", "mixed"]


def spellings(p, rng, with_types_comment=False):
    """list of (kind, Spelling).  The baseline is fully parenthesised / explicit / fractions; every other
    spelling changes one thing the property calls meaning-preserving, 'mixed' changes everything."""
    base = dict(parens="full", consts="frac", last_prob="explicit", simult="simult", elif_="elif")
    out = [("baseline", Spelling(rng, **base))]

    def add(kind, **kw):
        d = dict(base)
        d.update(kw)
        out.append((kind, Spelling(rng, **d)))

    add("tight", ws="tight")
    add("wide", ws="wide")
    add("comments", comments=True)
    add("blank", blank=True)
    add("crlf", crlf=True)
    add("parens-random", parens="random")
    add("parens-min", parens="min")
    add("decimal", consts="dec")
    add("implicit-last", last_prob="implicit")
    add("implicit-last-min", last_prob="implicit", parens="min")
    add("temporaries", simult="temps")
    add("nested-else-if", elif_="nested")
    add("mixed", ws=rng.choice(["tight", "wide", "normal"]), comments=True, blank=True, parens=rng.choice(["random", "min"]),
        consts="dec", last_prob="implicit", simult="temps", elif_="nested")
    if with_types_comment and p.get("types") and len(p["types"]) >= 2:
        add("comment-line-in-types", types_comment=True)
    return out


# ---- single-token mutations guaranteed to leave the language ---------------------------------
ARITH_OPS = ("+", "-", "*", "/", "**")
MUTATION_KINDS = ["del-rparen", "del-lparen", "ins-rparen", "ins-lparen", "double-operator", "del-end", "del-assign",
                  "del-colon", "assign-to-eq", "cop-to-assign", "del-operand", "del-lbrace", "del-rbrace", "bad-char",
                  "keyword-typo", "del-comma", "elif-first"]


def _positions(ts, pred):
    return [i for i, t in enumerate(ts) if pred(t)]


def mutate(tokens, kind, rng):
    """-> mutated token list or None if the kind does not apply"""
    ts = list(tokens)

    def pick(pred):
        ps = _positions(ts, pred)
        return rng.choice(ps) if ps else None

    if kind == "del-rparen":
        i = pick(lambda t: t == ")")
    elif kind == "del-lparen":
        i = pick(lambda t: t == "(")
    elif kind in ("del-end", "del-colon", "del-lbrace", "del-rbrace", "del-comma"):
        tok = {"del-end": "end", "del-colon": ":", "del-lbrace": "{", "del-rbrace": "}", "del-comma": ","}[kind]
        i = pick(lambda t: t == tok)
        if kind == "del-colon" and i is not None:
            # the colon of a typedef "x : Finite" is also a ':' — deleting it is invalid as well
            pass
    elif kind == "del-assign":
        i = pick(lambda t: t == "=")
    elif kind == "del-operand":
        # not before a sign: deleting the left operand of a binary +/- can leave a valid signed atom
        cands = [j for j, t in enumerate(ts) if (_is_num(t) or _is_id(t)) and not (j + 1 < len(ts) and ts[j + 1] in ("+", "-"))]
        i = rng.choice(cands) if cands else None
    else:
        i = None
    if kind.startswith("del-"):
        if i is None:
            return None
        del ts[i]
        return ts
    if kind in ("ins-rparen", "ins-lparen"):
        i = pick(lambda t: _is_num(t) or _is_id(t))
        if i is None:
            return None
        if kind == "ins-rparen":
            ts.insert(i + 1, ")")
        else:
            ts.insert(i, "(")
        return ts
    if kind == "double-operator":
        i = pick(lambda t: isinstance(t, str) and t in ARITH_OPS)
        if i is None:
            return None
        ts.insert(i + 1, rng.choice(["*", "/"]))
        return ts
    if kind == "assign-to-eq":
        i = pick(lambda t: t == "=")
        if i is None:
            return None
        ts[i] = ("COP", "==")
        return ts
    if kind == "cop-to-assign":
        i = pick(_is_cop)
        if i is None:
            return None
        ts[i] = "="
        return ts
    if kind == "bad-char":
        i = pick(lambda t: t in ("&&", "||"))
        if i is not None and rng.random() < 0.6:
            ts[i] = ("RAW", "&" if ts[i] == "&&" else "|")
            return ts
        i = pick(lambda t: _is_num(t) or _is_id(t))
        if i is None:
            return None
        ts.insert(i + rng.randint(0, 1), ("RAW", rng.choice(["$", "@", "?", "~", "^", ";"])))
        return ts
    if kind == "keyword-typo":
        i = pick(lambda t: t in ("while", "if", "else", "elif", "end"))
        if i is None:
            return None
        ts[i] = ("ID", {"while": "whle", "if": "iff", "else": "els", "elif": "elsif", "end": "ennd"}[ts[i]])
        return ts
    if kind == "elif-first":
        i = pick(lambda t: t == "if")
        if i is None:
            return None
        ts[i] = "elif"
        return ts
    raise ValueError(kind)
