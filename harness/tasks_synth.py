"""Worker tasks for C14: run the REAL UnsolvInvSynthesizer.synth_inv (k = 1 and general k, as
cli/actions/synth_unsolv_inv_action.py does) and SolvLoopSynthesizer.synth_loop on a program
text, and describe every returned (Q, f) pair and every synthesized program structurally at
rational points of the free symbols (symbolic initial values x0.., template coefficients _u..).

Everything besides Q, f and the synthesized programs is an UNTRUSTED certificate for the Coq
validators (candidate values of k, linear systems and closed forms of the effective
monomials, the joint system for the simulation check): the validators recompute wp(Q)
themselves from the flat program."""
import re
from fractions import Fraction

import sympy as sp

from exppoly import Unsupported
from tasks_core import dump_expr, dump_program, reset_settings, classify_exception, dump_num

U_VALUES = [[1, 2, -3, Fraction(1, 2), 5, -2], [Fraction(-3, 2), 1, 2, 3, Fraction(1, 3), -1], [2, -1, 1, Fraction(2, 3), 4, 3]]
OTHER_VALUES = [Fraction(7, 3), Fraction(-5, 2), Fraction(11, 5)]
AUX_VALUES = [0]   # like the reference semantics: a variable never initialised holds 0


def _rat(x):
    x = sp.nsimplify(sp.sympify(x), rational=True)
    if not x.is_Rational:
        raise Unsupported(f"not rational: {x}")
    return x


def _fs(x):
    x = _rat(x)
    return f"{x.p}/{x.q}"


def point_subs(symbols, variables, point, pi, types=None):
    """symbols: sympy symbols free in the objects to describe; point: {source variable: value}.
    '<v>0' of a program variable v is v's value before the loop; '_u<digits>' (template
    coefficients Polar leaves free) get fixed non-zero values; other '<v>0' (auxiliary
    variables) get small values."""
    varnames = {str(v) for v in variables}
    subs, used = {}, {}
    ui = 0
    for s in sorted(symbols, key=lambda t: (len(str(t)), str(t))):
        name = str(s)
        if name == "n":
            continue
        if name.endswith("0") and name[:-1] in point:
            val = Fraction(point[name[:-1]])
        elif re.fullmatch(r"_u\d+", name):
            val = Fraction(U_VALUES[pi % len(U_VALUES)][ui % len(U_VALUES[0])])
            ui += 1
        elif name.endswith("0") and name[:-1] in varnames:
            val = Fraction(AUX_VALUES[pi % len(AUX_VALUES)])
            if types and name[:-1] in types and val not in types[name[:-1]]:
                val = types[name[:-1]][0]
        else:
            # a symbol that is neither an initial value nor a template coefficient (e.g. an unsolved k):
            # give it a value as well, so that a closed form depending on it is compared, not skipped
            val = Fraction(OTHER_VALUES[pi % len(OTHER_VALUES)])
        subs[s] = sp.Rational(val.numerator, val.denominator)
        used[name] = f"{val.numerator}/{val.denominator}"
    return subs, used


def sym_subs(expr, subs):
    """substitute by NAME (Polar mixes symbols with different assumptions)"""
    e = sp.sympify(expr)
    byname = {str(k): v for k, v in subs.items()}
    rep = {s: byname[str(s)] for s in e.free_symbols if str(s) in byname}
    return e.xreplace(rep)


def n_symbol(expr):
    for s in sp.sympify(expr).free_symbols:
        if str(s) == "n":
            return s
    return sp.Symbol("n", integer=True)


class Ctx:
    """per-program cache of systems of effective monomials"""

    def __init__(self, program):
        from recurrences import RecBuilder
        self.program = program
        self.rb = RecBuilder(program)
        self.sys_cache = {}
        self.variables = list(program.variables)
        self.types = {}
        for v, t in program.typedefs.items():
            if type(t).__name__ == "Finite":
                try:
                    self.types[str(v)] = [Fraction(str(sp.nsimplify(sp.sympify(str(x)), rational=True))) for x in t.values]
                except Exception:
                    pass
        self.var_syms = [sp.Symbol(str(v)) for v in self.variables]

    def monomials_of(self, expr):
        """sympy polynomial in the program variables -> list of (coeff expr, monomial expr)"""
        e = sp.expand(sp.sympify(str(expr)))
        if e == 0:
            return []
        P = sp.Poly(e, *self.var_syms) if self.var_syms else None
        out = []
        if P is None:
            return [(e, sp.Integer(1))]
        for mon, co in P.terms():
            m = sp.Integer(1)
            for v, k in zip(self.var_syms, mon):
                m *= v ** k
            out.append((co, m))
        return out

    def system(self, monom):
        """Polar's own linear system and closed forms for one monomial (what
        __solve_effective_part__ computes), symbolic"""
        key = str(monom)
        if key in self.sys_cache:
            return self.sys_cache[key]
        import symengine
        from recurrences.solver import RecurrenceSolver
        recs = self.rb.get_recurrences(symengine.sympify(str(monom)))
        solver = RecurrenceSolver(recs)
        sols = [solver.get(m) for m in recs.monomials]
        d = {"recs": recs, "sols": sols, "solver": type(solver.solver).__name__}
        self.sys_cache[key] = d
        return d


def system_instance(cx, monom, subs):
    """one effective item at a point: monomials, matrix, init vector, closed forms (decomposed)"""
    from polar_tasks import closed_form_data, enc_cf
    d = cx.system(monom)
    recs, sols = d["recs"], d["sols"]
    mons = [sp.sympify(str(m)) for m in recs.monomials]
    item = {"monomial": str(monom), "monomials": [str(m) for m in mons], "monomial_dumps": [dump_expr(m) for m in mons],
            "is_inhomogeneous": bool(recs.is_inhomogeneous), "solver": d["solver"], "sols": [str(s) for s in sols]}
    target = sp.sympify(str(monom))
    idx = None
    for i, m in enumerate(mons):
        if sp.expand(m - target) == 0:
            idx = i
    item["idx"] = idx
    M, v = recs.recurrence_matrix, recs.init_values_vector
    item["A"] = [[_fs(sym_subs(M[i, j], subs)) for j in range(M.shape[1])] for i in range(M.shape[0])]
    item["v"] = [_fs(sym_subs(x, subs)) for x in v]
    comp = [sym_subs(s, subs) for s in sols]
    if recs.is_inhomogeneous:
        comp.append(sp.Integer(1))
    n = n_symbol(sum(comp, sp.Integer(0)))
    try:
        item["cf"] = enc_cf(closed_form_data(comp, n, None, 0))
    except Unsupported as u:
        item["unsupported"] = str(u)
    return item


def describe_pair(cx, Q, f, k_polar, points, N, certs=True):
    """Q, f: symbolic (sympy).  -> dict with one instance per point."""
    from polar_tasks import numeric_values
    import exppoly
    import symengine
    out = {"Q": str(Q), "f": str(f), "k_polar": None if k_polar is None else str(k_polar), "instances": []}
    free = set(sp.sympify(Q).free_symbols) | set(sp.sympify(f).free_symbols)
    if k_polar is not None:
        free |= set(sp.sympify(k_polar).free_symbols)
    free = {s for s in free if str(s) not in {str(v) for v in cx.variables} and str(s) != "n"}
    for pi, pt in enumerate(points):
        inst = {"point": pt}
        out["instances"].append(inst)
        try:
            subs, used = point_subs(free, cx.variables, pt, pi, cx.types)
            inst["symbols"] = used
            Qp = sp.expand(sym_subs(Q, subs))
            fp = sym_subs(f, subs)
            inst["Q"] = dump_expr(Qp)
            inst["Q_text"] = str(Qp)
            if Qp == 0:
                inst["degenerate"] = True
                continue
            n = n_symbol(fp)
            inst["f_text"] = str(fp)
            inst["f_values"] = numeric_values([fp], n, None, N + 1)
            inst["f_values"] = [r[0] for r in inst["f_values"]]
            try:
                k0, gen = exppoly.split_piecewise(fp, n)
                dec = exppoly.decompose(gen, n)
                inst["f_epoly"] = [[_fs(b), [_fs(c) for c in cs]] for b, cs in dec]
                inst["f_special"] = [_fs(sp.simplify(fp.subs(n, i))) for i in range(k0)]
            except Unsupported as u:
                inst["f_unsupported"] = str(u)
            except Exception as e:  # noqa
                inst["f_unsupported"] = f"{type(e).__name__}: {e}"
            if not certs:
                continue
            # ---- untrusted certificate: k and the effective items ----
            W = sp.expand(sp.sympify(str(cx.rb.get_recurrence_poly(symengine.sympify(str(Qp)), cx.variables))))
            inst["W_polar"] = dump_expr(W)
            eff_names = {str(v) for v in cx.program.effective_variables}
            cands = []
            if k_polar is not None:
                try:
                    cands.append(_rat(sym_subs(k_polar, subs)))
                except Exception:
                    pass
            wt = {str(m): c for c, m in cx.monomials_of(W)}
            for c, m in cx.monomials_of(Qp):
                if str(m) in wt and m != 1:
                    r = sp.nsimplify(wt[str(m)] / c, rational=True)
                    if r.is_Rational and r not in cands:
                        cands.append(r)
            if sp.Integer(0) not in cands:
                cands.append(sp.Integer(0))
            chosen, R = None, None
            for k in cands:
                Rk = sp.expand(W - k * Qp)
                if all(str(s) in eff_names for s in Rk.free_symbols):
                    chosen, R = k, Rk
                    break
            inst["k_candidates"] = [_fs(k) for k in cands]
            if chosen is None:
                inst["no_certificate"] = "no k makes wp(Q) - k*Q a polynomial in the effective variables"
                continue
            inst["k"] = _fs(chosen)
            inst["R"] = dump_expr(R)
            items = []
            for c, m in cx.monomials_of(R):
                if m == 1:
                    continue
                items.append(system_instance(cx, m, subs))
            inst["items"] = items
        except Unsupported as u:
            inst["unsupported"] = str(u)
        except BaseException as e:  # noqa
            inst["error"] = classify_exception(e)
    return out


def joint_system(cx, monoms, subs, limit=60):
    """closure of the given monomials under Polar's recurrences of the ORIGINAL program, as one
    system (monomial dumps, matrix rows with the constant as the empty monomial, init vector)"""
    import symengine
    todo = [sp.sympify(str(m)) for m in monoms]
    rows, order = {}, []
    while todo:
        m = todo.pop(0)
        key = str(m)
        if key in rows or m == 1:
            continue
        if len(order) >= limit:
            raise Unsupported("joint system too large")
        rec = sp.expand(sp.sympify(str(cx.rb.get_recurrence(symengine.sympify(key)))))
        init = sp.sympify(str(cx.rb.get_initial_value(symengine.sympify(key))))
        terms = cx.monomials_of(rec)
        rows[key] = (m, terms, init)
        order.append(key)
        for _, mm in terms:
            if mm != 1 and str(mm) not in rows:
                todo.append(mm)
    keys = order + ["1"]
    A, v = [], []
    for key in order:
        m, terms, init = rows[key]
        row = {k: sp.Integer(0) for k in keys}
        for c, mm in terms:
            row[str(mm)] += c
        A.append([_fs(sym_subs(row[k], subs)) for k in keys])
        v.append(_fs(sym_subs(init, subs)))
    A.append(["0/1"] * len(order) + ["1/1"])
    v.append("1/1")
    dumps = [dump_expr(rows[k][0]) for k in order] + [[["1/1", []]]]
    return {"monomials": keys, "monomial_dumps": dumps, "A": A, "v": v}


def task_synth(task):
    """task: text, cand (names | None = CLI default), deg, modes (subset of k1, gen, loop),
    points [{source variable: value}], nvals"""
    reset_settings(task.get("opts", {}))
    from inputparser import Parser
    from program import normalize_program
    from unsolvable_analysis import UnsolvInvSynthesizer, SolvLoopSynthesizer
    import symengine
    res = {}
    N = int(task.get("nvals", 8))
    points = task.get("points") or [{}]
    try:
        program = Parser().parse_string(task["text"])
        res["parsed"] = dump_program(program)
        program = normalize_program(program)
    except BaseException as e:  # noqa
        res["stage"] = "normalize"
        res["exception"] = classify_exception(e)
        return res
    try:
        res["flat"] = dump_program(program)
    except Unsupported as u:
        res["flat"] = {"unsupported": str(u)}
    res["flat_text"] = str(program)
    res["defective"] = sorted(str(v) for v in program.defective_variables)
    res["effective"] = sorted(str(v) for v in program.effective_variables)
    res["original"] = sorted(str(v) for v in program.original_variables)
    res["is_probabilistic"] = bool(program.is_probabilistic)
    if task.get("cand") is None:
        cand = [v for v in program.defective_variables if v in program.original_variables]
        cand.sort(key=str)
    else:
        cand = [symengine.sympify(v) for v in task["cand"]]
    res["cand"] = [str(v) for v in cand]
    deg = int(task["deg"])
    cx = Ctx(program)

    # observe (not alter) the k and solutions Polar uses: wrap get_invariants
    captured = []
    orig = UnsolvInvSynthesizer.get_invariants.__func__

    def spy(cls, candidate, rec_builder, solutions, rhs_effective_part, effective_part_coeffs, program_, k):
        captured.append({"k": k, "solutions": list(solutions), "candidate": candidate, "eff": rhs_effective_part})
        return orig(cls, candidate, rec_builder, solutions, rhs_effective_part, effective_part_coeffs, program_, k)

    UnsolvInvSynthesizer.get_invariants = classmethod(spy)
    try:
        for mode in task.get("modes", ["k1", "gen", "loop"]):
            entry = {}
            res[mode] = entry
            del captured[:]
            try:
                if mode == "k1":
                    if not program.defective_variables and task.get("cand") is None:
                        entry["not_applicable"] = True
                        continue
                    sols = UnsolvInvSynthesizer.synth_inv(cand, deg, program, k=1)
                    progs = None
                elif mode == "gen":
                    if not program.defective_variables and task.get("cand") is None:
                        entry["not_applicable"] = True
                        continue
                    sols = UnsolvInvSynthesizer.synth_inv(cand, deg, program)
                    progs = None
                else:
                    sols, progs = SolvLoopSynthesizer.synth_loop(cand, deg, program)
            except BaseException as e:  # noqa
                entry["exception"] = classify_exception(e)
                continue
            ks = []
            if captured:
                cap = captured[-1]
                for sol in cap["solutions"]:
                    k = cap["k"]
                    try:
                        ks.append(sp.sympify(k).xreplace(sol) if hasattr(k, "free_symbols") and sp.sympify(k).free_symbols else sp.sympify(k))
                    except Exception:
                        ks.append(None)
            entry["pairs"] = None if sols is None else []
            for i, pr in enumerate(sols or []):
                Q, f = sp.sympify(str(pr[0])), sp.sympify(pr[1])
                kp = ks[i] if i < len(ks) else None
                entry["pairs"].append(describe_pair(cx, Q, f, kp, points, N))
            if progs is None:
                continue
            entry["programs"] = []
            for i, sprog in enumerate(progs):
                pd = {"text": str(sprog)}
                entry["programs"].append(pd)
                try:
                    pd["dump"] = dump_program(sprog)
                    svars = [str(v) for v in sprog.variables if str(v).startswith("_s")]
                    pd["comb_var"] = svars[0] if len(svars) == 1 else None
                    pd["comb_vars"] = svars
                    # fresh copies: v = _t..  (last assignments of the body)
                    pd["instances"] = []
                    retained = sorted(str(v) for v in program.effective_variables if v in program.original_variables)
                    pd["retained"] = retained
                    free = set()
                    for a in list(sprog.initial) + list(sprog.loop_body):
                        for pol in getattr(a, "polynomials", []):
                            free |= set(sp.sympify(str(pol)).free_symbols)
                    free = {s for s in free if str(s) not in {str(v) for v in sprog.variables}}
                    # the initial values of the retained variables enter the joint system (v0 when v is not initialised)
                    for v in retained:
                        for s0 in sp.sympify(str(cx.rb.get_initial_value(symengine.sympify(v)))).free_symbols:
                            free.add(s0)
                    pair = entry["pairs"][i] if entry["pairs"] and i < len(entry["pairs"]) else None
                    for pi, pt in enumerate(points):
                        inst = {"point": pt}
                        pd["instances"].append(inst)
                        try:
                            if pair is not None:
                                # same symbol values as the pair's instance (same _u symbols)
                                pfree = set(sp.sympify(pair["Q"]).free_symbols) | set(sp.sympify(pair["f"]).free_symbols)
                                pfree = {s for s in pfree if str(s) not in {str(v) for v in cx.variables} and str(s) != "n"}
                                subs, used = point_subs(pfree | free, list(cx.variables) + list(sprog.variables), pt, pi, cx.types)
                                pin = pair["instances"][pi]
                                for nm, val in (pin.get("symbols") or {}).items():
                                    if used.get(nm) != val:
                                        raise Unsupported("symbol values of pair and program differ")
                            else:
                                subs, used = point_subs(free, list(cx.variables) + list(sprog.variables), pt, pi, cx.types)
                            inst["symbols"] = used
                            mons = [sp.Symbol(v) for v in retained]
                            if pair is not None and "R" in pair["instances"][pi]:
                                pin = pair["instances"][pi]
                                Rm = []
                                for co, mon in pin["R"]:
                                    m = sp.Integer(1)
                                    for x, k in mon:
                                        m *= sp.Symbol(x) ** k
                                    Rm.append(m)
                                mons = Rm + mons
                            inst["system"] = joint_system(cx, mons, subs)
                        except Unsupported as u:
                            inst["unsupported"] = str(u)
                        except BaseException as e:  # noqa
                            inst["error"] = classify_exception(e)
                except Unsupported as u:
                    pd["unsupported"] = str(u)
                except BaseException as e:  # noqa
                    pd["error"] = classify_exception(e)
    finally:
        UnsolvInvSynthesizer.get_invariants = classmethod(orig)
    return res


def task_synth_parse(task):
    """Polar's parse of a program text, structurally (ties the transcribed benchmark ASTs to the files)"""
    reset_settings({})
    from inputparser import Parser
    try:
        return {"parsed": dump_program(Parser().parse_string(task["text"])), "name": task.get("name")}
    except BaseException as e:  # noqa
        return {"exception": classify_exception(e), "name": task.get("name")}
