"""Source-program AST shared by the generators and checks, mirroring coq/theories/Syntax.v,
with two printers: Polar's concrete syntax (.prob text) and a Coq term of type Syntax.prog.
Expressions are nested tuples:
  ("const", Fraction) | ("var", name) | ("add", a, b) | ("mul", a, b) | ("pow", a, k) | ("neg", a) | ("sub", a, b)
Conditions: ("true",) | ("false",) | ("atom", e1, cop, e2) | ("not", c) | ("and", c1, c2) | ("or", c1, c2)
Draws: ("bern", e) | ("cat", [e..]) | ("unif", a, b) | ("cont", family, [e..])
Rhs:   ("choice", [(prob_expr, value_expr), ...])   (all probabilities explicit)  | ("draw", d)
Stmts: ("assign", x, rhs) | ("simult", [(x, rhs), ...]) | ("if", [(cond, [stmts]), ...], [else stmts] or None)
Program: {"types": [(var, [values])], "init": [stmts], "guard": cond, "body": [stmts]}"""
from fractions import Fraction


def const(q):
    return ("const", Fraction(q))


def var(x):
    return ("var", x)


def det(e):
    return ("choice", [(const(1), e)])


# ---- Polar text ---------------------------------------------------------------------
def q_text(q):
    q = Fraction(q)
    if q.denominator == 1:
        return str(q.numerator) if q >= 0 else f"({q.numerator})"
    s = f"{abs(q.numerator)}/{q.denominator}"
    return f"({s})" if q > 0 else f"(-{s})"


def e_text(e):
    k = e[0]
    if k == "const":
        return q_text(e[1])
    if k == "var":
        return e[1]
    if k == "add":
        return f"({e_text(e[1])} + {e_text(e[2])})"
    if k == "sub":
        return f"({e_text(e[1])} - {e_text(e[2])})"
    if k == "mul":
        return f"({e_text(e[1])}*{e_text(e[2])})"
    if k == "neg":
        return f"(-{e_text(e[1])})"
    if k == "pow":
        return f"({e_text(e[1])})**{e[2]}"
    raise ValueError(e)


COPS = {"==": "Ceq", "<=": "Cle", ">=": "Cge", "<": "Clt", ">": "Cgt"}


def c_text(c):
    k = c[0]
    if k == "true":
        return "true"
    if k == "false":
        return "false"
    if k == "atom":
        return f"{e_text(c[1])} {c[2]} {e_text(c[3])}"
    if k == "not":
        return f"!({c_text(c[1])})"
    if k == "and":
        return f"({c_text(c[1])}) && ({c_text(c[2])})"
    if k == "or":
        return f"({c_text(c[1])}) || ({c_text(c[2])})"
    raise ValueError(c)


def d_text(d):
    k = d[0]
    if k == "bern":
        return f"Bernoulli({e_text(d[1])})"
    if k == "cat":
        return "Categorical(" + ", ".join(e_text(p) for p in d[1]) + ")"
    if k == "unif":
        return f"DiscreteUniform({d[1]}, {d[2]})"
    if k == "cont":
        return f"{d[1]}(" + ", ".join(e_text(p) for p in d[2]) + ")"
    raise ValueError(d)


def r_text(r, implicit_last=True):
    if r[0] == "draw":
        return d_text(r[1])
    alts = r[1]
    if len(alts) == 1:
        return e_text(alts[0][1])
    parts = []
    for i, (p, e) in enumerate(alts):
        if i == len(alts) - 1 and implicit_last:
            parts.append(e_text(e))
        else:
            parts.append(f"{e_text(e)} {{{e_text(p)}}}")
    return " ".join(parts)


def s_text(s, ind, implicit_last=True):
    pad = "    " * ind
    k = s[0]
    if k == "assign":
        return [f"{pad}{s[1]} = {r_text(s[2], implicit_last)}"]
    if k == "simult":
        return [pad + ", ".join(x for x, _ in s[1]) + " = " + ", ".join(r_text(r, implicit_last) for _, r in s[1])]
    if k == "if":
        out = []
        for i, (c, b) in enumerate(s[1]):
            out.append(f"{pad}{'if' if i == 0 else 'elif'} {c_text(c)}:")
            out += b_text(b, ind + 1, implicit_last)
        if s[2] is not None:
            out.append(f"{pad}else:")
            out += b_text(s[2], ind + 1, implicit_last)
        out.append(f"{pad}end")
        return out
    raise ValueError(s)


def b_text(b, ind, implicit_last=True):
    out = []
    for s in b:
        out += s_text(s, ind, implicit_last)
    return out


def prog_text(p, implicit_last=True):
    out = []
    if p.get("types"):
        out.append("types")
        for v, vals in p["types"]:
            out.append(f"    {v} : Finite(" + ", ".join(q_text(x) for x in vals) + ")")
        out.append("end")
    out += b_text(p["init"], 0, implicit_last)
    out.append(f"while {c_text(p['guard'])}:")
    out += b_text(p["body"], 1, implicit_last)
    out.append("end")
    return "\n".join(out) + "\n"


# ---- Coq term -----------------------------------------------------------------------
def q_coq(q):
    q = Fraction(q)
    return f"(mkq ({q.numerator}) {q.denominator})"


def e_coq(e):
    k = e[0]
    if k == "const":
        return f"(EConst {q_coq(e[1])})"
    if k == "var":
        return f'(EVar "{e[1]}")'
    if k == "add":
        return f"(EAdd {e_coq(e[1])} {e_coq(e[2])})"
    if k == "sub":
        return f"(ESub {e_coq(e[1])} {e_coq(e[2])})"
    if k == "mul":
        return f"(EMul {e_coq(e[1])} {e_coq(e[2])})"
    if k == "neg":
        return f"(ENeg {e_coq(e[1])})"
    if k == "pow":
        return f"(EPow {e_coq(e[1])} {e[2]})"
    raise ValueError(e)


def c_coq(c):
    k = c[0]
    if k == "true":
        return "CTrue"
    if k == "false":
        return "CFalse"
    if k == "atom":
        return f"(CAtom {e_coq(c[1])} {COPS[c[2]]} {e_coq(c[3])})"
    if k == "not":
        return f"(CNot {c_coq(c[1])})"
    if k == "and":
        return f"(CAnd {c_coq(c[1])} {c_coq(c[2])})"
    if k == "or":
        return f"(COr {c_coq(c[1])} {c_coq(c[2])})"
    raise ValueError(c)


def lst(items):
    return "[" + "; ".join(items) + "]"


def d_coq(d):
    k = d[0]
    if k == "bern":
        return f"(DBern {e_coq(d[1])})"
    if k == "cat":
        return f"(DCat {lst([e_coq(p) for p in d[1]])})"
    if k == "unif":
        return f"(DUnif ({d[1]})%Z ({d[2]})%Z)"
    if k == "cont":
        return f'(DCont "{d[1]}" {lst([e_coq(p) for p in d[2]])})'
    raise ValueError(d)


def r_coq(r):
    if r[0] == "draw":
        return f"(RDraw {d_coq(r[1])})"
    return "(RChoice " + lst([f"({e_coq(p)}, {e_coq(e)})" for p, e in r[1]]) + ")"


def s_coq(s):
    k = s[0]
    if k == "assign":
        return f'(SAssign "{s[1]}" {r_coq(s[2])})'
    if k == "simult":
        return "(SSimult " + lst([f'("{x}", {r_coq(r)})' for x, r in s[1]]) + ")"
    if k == "if":
        brs = "BrNil"
        for c, b in reversed(s[1]):
            brs = f"(BrCons {c_coq(c)} {b_coq(b)} {brs})"
        els = b_coq(s[2]) if s[2] is not None else "BNil"
        return f"(SIf {brs} {els})"
    raise ValueError(s)


def b_coq(b):
    t = "BNil"
    for s in reversed(b):
        t = f"(BCons {s_coq(s)} {t})"
    return t


def prog_coq(p):
    return f"{{| p_init := {b_coq(p['init'])}; p_guard := {c_coq(p['guard'])}; p_body := {b_coq(p['body'])} |}}"


def mono_coq(m):
    """m: dict var -> power"""
    return lst([f'("{x}", {k}%nat)' for x, k in sorted(m.items()) if k > 0])


COQ_HEADER = ("From Coq Require Import List String QArith Qcanon ZArith.\n"
              "From Polar Require Import Qcx Dist Syntax Sem.\nImport ListNotations.\nOpen Scope string_scope.\n")


# ---- utilities ----------------------------------------------------------------------
def stmts_vars(b, acc=None):
    acc = set() if acc is None else acc
    for s in b:
        if s[0] == "assign":
            acc.add(s[1])
        elif s[0] == "simult":
            acc.update(x for x, _ in s[1])
        else:
            for _, bb in s[1]:
                stmts_vars(bb, acc)
            if s[2]:
                stmts_vars(s[2], acc)
    return acc


def prog_vars(p):
    return sorted(stmts_vars(p["init"]) | stmts_vars(p["body"]))


# ---- JSON round trip (replay files) ------------------------------------------------------
def to_json(x):
    if isinstance(x, Fraction):
        return {"q": f"{x.numerator}/{x.denominator}"}
    if isinstance(x, (list, tuple)):
        return [to_json(y) for y in x]
    if isinstance(x, dict):
        return {"d": {k: to_json(v) for k, v in x.items()}}
    return x


def from_json(x, top=True):
    if isinstance(x, dict):
        if "q" in x and len(x) == 1:
            return Fraction(x["q"])
        return {k: from_json(v, False) for k, v in x["d"].items()}
    if isinstance(x, list):
        ys = [from_json(y, False) for y in x]
        # statements / expressions are tuples whose first element is a tag string; bodies are lists
        if ys and isinstance(ys[0], str) and ys[0] in TAGS:
            return tuple(ys)
        if len(ys) == 2 and not (ys and isinstance(ys[0], str)):
            # pairs (prob, value), (cond, block), (var, rhs) are tuples in the AST
            return tuple(ys) if _is_pair(ys) else ys
        return ys
    return x


TAGS = {"const", "var", "add", "sub", "mul", "neg", "pow", "true", "false", "atom", "not", "and", "or", "bern", "cat", "unif",
        "cont", "choice", "draw", "assign", "simult", "if"}


def _is_pair(ys):
    a, b = ys
    if isinstance(a, tuple) and a and a[0] in ("const", "var", "add", "sub", "mul", "neg", "pow"):
        return True       # (prob_expr, value_expr)
    if isinstance(a, tuple) and a and a[0] in ("true", "false", "atom", "not", "and", "or"):
        return True       # (cond, block)
    return False
