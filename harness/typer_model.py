"""C05 / typer model: correspondence between the Gallina model Typer.typer_run of Polar's
type-inference ALGORITHM (type_inference/finite_fixed_point_typer.py; theorem
props/C05_Typer.v: the model's result is a post-fixpoint accepted by Types.check_types, hence
sound for every reachable state) and the real TypeInferer pass.

Input  = Polar's snapshot before TypeInferer (= after ConstantsTransformer: flat program,
         declared types, per-assignment flag guard_implied) + the program symbols,
output = the type registry in the snapshot after TypeInferer.
Inside Coq (vm_compute): Typer.typer_matches runs the model with Polar's budgets and compares
the two type environments variable by variable as SETS of values.  A mismatch is reported with a
failing input when Search.type_search finds a reachable state outside Polar's types, otherwise as
a broken correspondence.

    run_model(ctx, runs)   runs: dicts with "text", "opts", "snapshots" (checks/c02.py style);
                           the module's own probes are always added (they are the only instances
                           when runs is empty)
    stand-alone:  cd /verif && PYTHONPATH=harness:/repo /venv/bin/python harness/typer_model.py
"""
import json
import re
import sys
import time
from fractions import Fraction

import lib
import core
import progast as P

HEADER = ("From Coq Require Import List String QArith Qcanon ZArith.\n"
          "From Polar Require Import Qcx Dist Syntax Sem Types Search Typer TyperSound.\n"
          "Import ListNotations.\nOpen Scope string_scope.\n")
PER_FILE = 8
BEFORE, AFTER = "ConstantsTransformer", "TypeInferer"   # neighbours in program/transformer/__init__.py


# ---- probe programs (Polar text, options) --------------------------------------------------
def _p(name, text, opts=None):
    return (name, text, opts or {})


PROBES = [
    _p("converges", "x = 0\ny = 1\nwhile true:\n    x = 1 - x\n    y = x + y*0 + 2\nend\n"),
    _p("counter-then-reader", "x = 0\ny = 0\nwhile true:\n    x = x + 1\n    y = x\nend\n"),
    _p("reader-then-counter", "x = 0\ny = 0\nwhile true:\n    y = x\n    x = x + 1\nend\n"),
    _p("counter-then-reader/budget3", "x = 0\ny = 0\nz = 0\nwhile true:\n    x = x + 1\n    y = x\n    z = 1 - z\nend\n", {"type_fp_iterations": 3}),
    _p("reader-then-counter/budget3", "x = 0\ny = 0\nz = 0\nwhile true:\n    y = x\n    x = x + 1\n    z = 1 - z\nend\n", {"type_fp_iterations": 3}),
    _p("reader-chain3-backwards/budget2", "x = 0\na = 0\nb = 0\nc = 0\nk = 0\nwhile true:\n    c = b\n    b = a\n    a = x\n    x = x + 1\n    k = Bernoulli(1/2)\nend\n",
       {"type_fp_iterations": 2}),
    _p("reader-chain3-forwards/budget2", "x = 0\na = 0\nb = 0\nc = 0\nk = 0\nwhile true:\n    x = x + 1\n    a = x\n    b = a\n    c = b\n    k = Bernoulli(1/2)\nend\n",
       {"type_fp_iterations": 2}),
    _p("reader-chain3-backwards", "x = 0\na = 0\nb = 0\nc = 0\nwhile true:\n    c = b\n    b = a\n    a = x\n    x = x + 1\nend\n"),
    _p("late-values/budget1", "v0 = 0\nv1 = 0\nv2 = 0\nv3 = 0\nwhile true:\n    v3 = v2\n    v2 = v1\n    v1 = v0\n    v0 = 0 {1/2} 2\nend\n", {"type_fp_iterations": 1}),
    _p("late-values/budget2", "v0 = 0\nv1 = 0\nv2 = 0\nv3 = 0\nwhile true:\n    v3 = v2\n    v2 = v1\n    v1 = v0\n    v0 = 0 {1/2} 2\nend\n", {"type_fp_iterations": 2}),
    _p("late-values", "v0 = 0\nv1 = 0\nv2 = 0\nv3 = 0\nwhile true:\n    v3 = v2\n    v2 = v1\n    v1 = v0\n    v0 = 0 {1/2} 2\nend\n"),
    _p("two-dice-sum", "d1 = 1\nd2 = 1\ns = 2\nwhile true:\n    d1 = DiscreteUniform(1, 6)\n    d2 = DiscreteUniform(1, 6)\n    s = d1 + d2\nend\n"),
    _p("three-dice-sum", "d1 = 1\nd2 = 1\nd3 = 1\ns = 3\nwhile true:\n    d1 = DiscreteUniform(1, 6)\n    d2 = DiscreteUniform(1, 6)\n    d3 = DiscreteUniform(1, 6)\n    s = d1 + d2 + d3\nend\n"),
    _p("two-dice-product", "d1 = 1\nd2 = 1\np = 1\nwhile true:\n    d1 = DiscreteUniform(1, 6)\n    d2 = DiscreteUniform(1, 6)\n    p = d1*d2\nend\n"),
    _p("25-values", "a = 0\nb = 0\nw = 0\nwhile true:\n    a = DiscreteUniform(0, 4)\n    b = DiscreteUniform(0, 4)\n    w = 5*a + b\nend\n"),
    _p("26-values", "a = 0\nb = 0\nw = 0\nv = 0\nwhile true:\n    a = DiscreteUniform(0, 12)\n    b = Bernoulli(1/2)\n    w = 2*a + b\n    v = a*b\nend\n"),
    _p("26-support", "u = 0\nb = 0\nwhile true:\n    u = DiscreteUniform(0, 25)\n    b = Bernoulli(1/3)\nend\n"),
    _p("declared-locked", "types\n    x : Finite(0, 1, 2)\nend\nx = 0\ny = 0\nwhile true:\n    y = x**2\n    x = 2 - x\nend\n"),
    _p("declared-counter-locked", "types\n    n : Finite(0, 1, 2, 3)\nend\nn = 0\ny = 0\nz = 0\nwhile true:\n    y = n + z\n    z = 1 - z\nend\n"),
    _p("declared-trusted", "types\n    n : Finite(0, 1, 2)\nend\nn = 0\ny = 0\nwhile true:\n    y = n\n    n = n + 1\nend\n"),
    _p("initial-twice", "x = 0\nx = x + 1\ny = 0\nwhile true:\n    y = x\n    x = 3 - x\nend\n"),
    _p("initial-twice-draw", "x = 7\nx = Bernoulli(1/2)\ny = x + 1\nwhile true:\n    y = y\n    x = x\nend\n"),
    _p("never-initialised-written-first", "y = 0\nwhile true:\n    x = Bernoulli(1/2)\n    y = x\nend\n"),
    _p("never-initialised-read-first", "y = 0\nz = 0\nwhile true:\n    y = x\n    x = Bernoulli(1/2)\n    z = 1 - z\nend\n"),
    _p("categorical-zero-probability", "k = 1\nd = -1\nwhile true:\n    k = Categorical(0, 1/4, 1/4, 1/2)\n    d = 2*k - 3\nend\n"),
    _p("negative-uniform", "u = 0\nw = 1\nwhile true:\n    u = DiscreteUniform(-2, 1)\n    w = u*u - u\nend\n"),
    _p("guarded-under-loop-guard", "x = 5\nc = 0\nwhile c == 0:\n    x = 1\n    x = x + 1\n    c = Bernoulli(1/2)\nend\n"),
    _p("guarded-under-loop-guard-2", "x = 0\nc = 0\nwhile c == 0:\n    x = 1 - x\n    c = Bernoulli(1/2)\nend\n"),
    _p("guarded-by-if", "f = 0\nx = 0\ny = 3\nwhile true:\n    f = Bernoulli(1/2)\n    if f == 1:\n        x = 1 - x\n        y = x\n    else:\n        y = 7\n    end\nend\n"),
    _p("guard-and-if", "f = 0\nx = 0\nc = 0\nwhile c < 1:\n    f = Bernoulli(1/2)\n    if f == 1:\n        x = 1 - x\n    end\n    if x == 1:\n        c = Bernoulli(1/4)\n    end\nend\n"),
    _p("continuous", "x = 0\ny = 0\nz = 0\nwhile true:\n    x = Normal(0, 1)\n    y = x + 1\n    z = Bernoulli(1/2)\nend\n"),
    _p("symbolic-constant", "y = 0\nz = 0\nw = 0\nwhile true:\n    y = Bernoulli(p)\n    z = p\n    w = 1 - w\nend\n"),
    _p("accumulator-of-stable-input", "b = 0\nx = 0\nw = 0\nwhile true:\n    b = Bernoulli(1/2)\n    x = x + b\n    w = 1 - w\nend\n"),
    _p("choice-with-self", "x = 0\nwhile true:\n    x = x {1/2} 1 - x\nend\n"),
]


# ---- conversion ---------------------------------------------------------------------------
def _model_dump(d):
    """the snapshot as the model reads it: Sin/Cos/Exp assignments have an interval support like a
    continuous draw (the typer fails both), so they are presented as one"""
    out = {"init": [], "body": []}
    for part in ("init", "body"):
        for a in d[part]:
            if "if" in a:
                raise core.NotModelled("if-statement in flat program")
            if a["rhs"][0] == "func":
                a = dict(a)
                a["rhs"] = ["draw", ["cont", "Normal", [["mu", []], ["sigma2", [["1/1", []]]]]]]
            out[part].append(a)
    return out


def _numeric_declared(types):
    """declared Finite types with rational values; other kinds of types are ignored by the typer"""
    out = []
    for v, vals in types:
        if isinstance(vals, str):
            continue
        try:
            out.append([v, [str(Fraction(x)) for x in vals]])
        except Exception:
            raise core.NotModelled(f"declared type of {v} has non-rational values")
    return out


def case_of(run):
    snaps = dict((n, d) for n, d in (run.get("snapshots") or []))
    a, b = snaps.get(BEFORE), snaps.get(AFTER)
    if a is None or b is None:
        return None
    if "unsupported" in a or "unsupported" in b:
        return "unsupported"
    md = _model_dump(a)
    declared = _numeric_declared(a["types"])
    implied = [bool(x.get("guard_implied")) for x in a["body"]]
    # Assignment.get_support of the current code: the default is left out iff the condition is
    # implied by the loop guard and the default is the assigned variable (or the condition is true)
    drops = [bool(x.get("guard_implied")) and x["default"] == x["var"] for x in a["body"]]
    iters = int((run.get("opts") or {}).get("type_fp_iterations", 100))
    fp = core.flat_coq(md)
    polar_types = [[v, vals] for v, vals in b["types"] if not isinstance(vals, str)]
    for v, vals in polar_types:
        for x in vals:
            Fraction(x)   # ValueError -> caught by the caller: non-numeric inferred type
    return {"text": run["text"], "opts": run.get("opts") or {}, "fp": fp, "D": core.types_coq(declared), "declared": declared,
            "syms": P.lst(['"%s"' % s for s in b.get("symbols", [])]), "nsyms": len(b.get("symbols", [])),
            "implied": P.lst(["true" if x else "false" for x in implied]),
            "drops": P.lst(["true" if x else "false" for x in drops]),
            "T": core.types_coq(polar_types), "polar_types": polar_types, "iters": iters,
            "vars": sorted({x["var"] for x in a["init"] + a["body"]}), "flat_after": b,
            "name": run.get("probe")}


def params(c, rev=False):
    return f"{{| tp_iters := {c['iters']}; tp_max := 25; tp_rev := {'true' if rev else 'false'} |}}"


def run_probes():
    tasks = [{"kind": "analyze", "text": t, "goals": [], "solve": False, "snapshots": True, "opts": o, "timeout": 30} for _, t, o in PROBES]
    res = lib.run_tasks(tasks, timeout=30)
    runs = []
    for (name, t, o), r in zip(PROBES, res):
        runs.append({"text": t, "opts": o, "snapshots": r.get("snapshots") or [], "probe": name,
                     "polar_error": r.get("error") or (r.get("exception") or {}).get("etype")})
    return runs


def parse_search(out):
    """output of Eval type_search: list (per n) of list of (var, (num, den))  (as in checks/c05.py)"""
    m = re.search(r"=\s*(\[.*\])\s*:\s*list \(list \(var \* \(Z \* positive\)\)\)", out, re.S)
    if not m:
        return None
    txt = re.sub(r"\((-\d+)\)", r"\1", m.group(1).replace("%Z", "").replace("%positive", "").replace("%string", ""))
    rows, depth, cur = [], 0, None
    for tok in re.finditer(r'\[|\]|\(\s*"([^"]*)"\s*,\s*\(\s*(-?\d+)\s*,\s*(\d+)\s*\)\s*\)', txt):
        t = tok.group(0)
        if t == "[":
            depth += 1
            if depth == 2:
                cur = []
        elif t == "]":
            if depth == 2:
                rows.append(cur)
            depth -= 1
        else:
            cur.append((tok.group(1), Fraction(int(tok.group(2)), int(tok.group(3)))))
    return rows


def _parse_results(out):
    """one line  = [b; b; b; b] : list bool  and one  = n : nat  per case"""
    lists = re.findall(r"=\s*\[(.*?)\]\s*:\s*list bool", out, re.S)
    nats = re.findall(r"=\s*(\d+)(?:%nat)?\s*:\s*nat", out)
    return [[x.strip() == "true" for x in l.split(";")] for l in lists], [int(n) for n in nats]


def run_model(ctx, runs, with_probes=True):
    t0 = time.time()
    st = {"instances": 0, "model_equals_polar": 0, "cascade_used": 0, "declared_types_used": 0, "typed_variables": 0,
          "symbolic_values_involved": 0, "matched_with_reversed_substitution_order": 0, "symbolic_mismatch_not_alarmed": 0,
          "not_modelled": 0, "polar_errors": 0, "theorem_hypotheses_hold": 0, "declared_types_not_validated": 0, "probes": 0, "probe_polar_errors": {}, "model_fuel_exhausted": 0}
    ctx.coverage["typer_model"] = st
    ok, log = lib.coq_make(["theories/TyperSound.vo", "theories/Search.vo"])
    if not ok:
        ctx.violation("typer-model:build", {"log": log[-2000:]}, "theories/Typer.v does not build", no_input=True)
        return st
    runs = list(runs)
    if with_probes:
        pr = run_probes()
        st["probes"] = len(pr)
        for r in pr:
            if r["polar_error"]:
                # every probe is accepted by the unchanged tree
                st["probe_polar_errors"][r["probe"]] = r["polar_error"]
                ctx.violation(f"typer-model:probe-failed:{r['probe']}", {"program_text": r["text"], "options": r["opts"], "error": r["polar_error"]},
                              f"Polar no longer analyses the typer probe '{r['probe']}' ({r['polar_error']}; a timeout means the fixed-point "
                              "iteration of the typer does not terminate)", no_input=True)
        runs += pr
    cases, seen = [], set()
    for run in runs:
        try:
            c = case_of(run)
        except (core.NotModelled, ValueError):
            st["not_modelled"] += 1
            continue
        if c is None:
            st["polar_errors"] += 1
            continue
        if c == "unsupported":
            st["not_modelled"] += 1
            continue
        key = json.dumps([c["fp"], c["D"], c["T"], c["iters"], c["implied"], c["syms"]])
        if key in seen:
            continue
        seen.add(key)
        cases.append(c)
    files = []
    for j in range(0, len(cases), PER_FILE):
        body = HEADER
        for k, c in enumerate(cases[j:j + PER_FILE]):
            args = f"{c['syms']} fp{k} D{k} {c['implied']}"
            body += (f"Definition fp{k} : flatprog := {c['fp']}.\nDefinition D{k} : tenv := {c['D']}.\nDefinition T{k} : tenv := {c['T']}.\n"
                     f"Eval vm_compute in [typer_matches {params(c)} {args} {c['drops']} T{k}; "
                     f"typer_matches {params(c, True)} {args} {c['drops']} T{k}; "
                     f"typer_symbolic {params(c)} {args}; "
                     f"match typer_run {params(c)} {args} {c['drops']} with Some _ => true | None => false end; "
                     f"body_single fp{k}; drops_harmless (fp_body fp{k}) {c['drops']}; declared_ok fp{k} D{k} T{k}; "
                     f"typer_below {params(c)} {args} {c['drops']} T{k}].\n"
                     f"Eval vm_compute in (typer_cascade_rounds {params(c)} {args} {c['drops']}).\n")
        files.append((f"tym_{j // PER_FILE}", body))
    outs = lib.coq_run_many(ctx, files, timeout=300)
    bad = []
    for j in range(0, len(cases), PER_FILE):
        okc, o = outs[f"tym_{j // PER_FILE}"]
        chunk = cases[j:j + PER_FILE]
        lists, nats = _parse_results(o) if okc else ([], [])
        if len(lists) != len(chunk) or len(nats) != len(chunk):
            ctx.violation(f"typer-model:coq:{chunk[0]['text']}", {"output": o[-2000:], "programs": [c["text"] for c in chunk]},
                          "the typer model could not be evaluated inside Coq on Polar's snapshots", no_input=True)
            continue
        for c, l, n in zip(chunk, lists, nats):
            match, match_rev, symbolic, terminated, single, harmless, decl_ok, below = l
            st["instances"] += 1
            ctx.coverage["obligations"] = ctx.coverage.get("obligations", 0) + 1
            ntyped = len(c["polar_types"])
            st["typed_variables"] += ntyped
            ctx.count({"typer_model": c["text"], "b": c["iters"]}, nontrivial=ntyped >= 1)
            if n > 0:
                st["cascade_used"] += 1
            if c["declared"]:
                st["declared_types_used"] += 1
            if symbolic:
                st["symbolic_values_involved"] += 1
            if not terminated:
                st["model_fuel_exhausted"] += 1
            # hypotheses of C05_typer_postfixpoint (/ _declared_partial when a types block is present)
            if single and harmless and (decl_ok or not c["declared"]):
                st["theorem_hypotheses_hold"] += 1
            elif c["declared"] and single and harmless:
                st["declared_types_not_validated"] += 1
            if not single:
                ctx.violation(f"typer-model:not-single-assignment:{c['text']}", {"program_text": c["text"], "options": c["opts"], "flat_program": c["fp"]},
                              "the program handed to TypeInferer assigns a variable twice in the loop body (the typer's precondition, "
                              "hypothesis body_single of C05_typer_postfixpoint)", no_input=True)
            if match or match_rev:
                st["model_equals_polar"] += 1
                ctx.coverage["discharged"] = ctx.coverage.get("discharged", 0) + 1
                if not match:
                    st["matched_with_reversed_substitution_order"] += 1
                if len(ctx.coverage.get("samples", [])) < 6 and n > 0:
                    ctx.sample({"program": c["text"], "fp_iterations": c["iters"], "polar_types": c["polar_types"],
                                "typer_model": f"Typer.typer_run gives the same types; cascade rounds = {n}"})
            else:
                c["symbolic"] = symbolic and below
                c["cascade_rounds"] = n
                bad.append(c)
    # mismatches: show the model's types and look for a reachable state outside Polar's types
    depth = ctx.pick(5, 7)
    sfiles = []
    for k, c in enumerate(bad):
        args = f"{c['syms']} {c['fp']} {c['D']} {c['implied']}"
        body = HEADER + f"Eval vm_compute in (option_map tenv_pairs (typer_run {params(c)} {args} {c['drops']})).\n"
        sfiles.append((f"tyshow_{k}", body))
        vl = P.lst(['"%s"' % v for v in c["vars"]])
        body = HEADER + f"Eval vm_compute in (type_search {vl} {c['fp']} {c['T']} {depth}).\n"
        sfiles.append((f"tysearch_{k}", body))
    souts = lib.coq_run_many(ctx, sfiles, timeout=120) if sfiles else {}
    for k, c in enumerate(bad):
        oks, os_ = souts[f"tyshow_{k}"]
        okr, orr = souts[f"tysearch_{k}"]
        model_types = os_[-3000:] if oks else None
        wit = None
        if okr:
            rows = parse_search(orr)
            for n, row in enumerate(rows or []):
                if row:
                    wit = (n, row[0][0], row[0][1])
                    break
        rep = {"program_text": c["text"], "options": c["opts"], "polar_types": c["polar_types"], "declared_types": c["declared"],
               "model_types": model_types, "cascade_rounds_in_model": c["cascade_rounds"],
               "correspondence": "Typer.typer_run vs FiniteFixedPointTyper.infer_types on the snapshot before TypeInferer",
               "theorem": "props/C05_Typer.v: C05_typer_postfixpoint is about the model, which no longer describes the code"}
        sig = f"typer-model:{c['text']}" + ("" if c["iters"] == 100 else f"#fp_iterations={c['iters']}")
        if wit:
            n, x, v = wit
            rep.update({"variable": x, "value": str(v), "iteration": n, "flat_program": c["fp"]})
            ctx.violation(sig, rep,
                          f"Polar's inferred types differ from the model of the typer, and variable {x} holds {v} after {n} iterations, "
                          f"outside its inferred type {dict((a, b) for a, b in c['polar_types']).get(x)} (fp_iterations={c['iters']})")
        elif c["symbolic"]:
            # "not a number" values are only approximated (see notes_C05_typer.md: 0*symbol is a number for
            # symengine): Polar typing MORE variables than the model in a run with symbolic values, without
            # a failing input, is counted, not alarmed
            st["symbolic_mismatch_not_alarmed"] += 1
        else:
            ctx.violation(sig, rep,
                          "the model of the typer algorithm (Typer.typer_run) and FiniteFixedPointTyper infer different types for\n"
                          + c["text"] + f"(fp_iterations={c['iters']}); no reachable state within {depth} iterations is outside Polar's types",
                          no_input=True)
    st["wall_s"] = round(time.time() - t0, 1)
    print(f"  [typer model] instances={st['instances']} model==polar={st['model_equals_polar']} cascade_used={st['cascade_used']} "
          f"declared_types_used={st['declared_types_used']} symbolic={st['symbolic_values_involved']} typed_vars={st['typed_variables']} "
          f"theorem_hypotheses_hold={st['theorem_hypotheses_hold']} "
          f"not_modelled={st['not_modelled']} polar_errors={st['polar_errors']} mismatches={len(bad)} wall={st['wall_s']}s", flush=True)
    ctx.coverage.setdefault("trusted_base", []).append(
        "harness/typer_model.py + harness/core.py: conversion of Polar's snapshot before TypeInferer, its declared types, symbols and "
        "guard_implied flags to Coq terms (the typer model and the comparison of type environments run inside Coq)")
    ctx.assumptions.append(
        "typer model: symbolic values (start symbol of a never-initialised variable read before its assignment, symbolic constants) are one "
        "absorbing not-a-number token; the substitution order of _get_values_for_expr (a Python set) is taken as first occurrence, "
        "the reversed order is tried before a mismatch is reported; Sin/Cos/Exp assignments are presented as continuous draws")
    return st


class ScratchCtx(lib.Ctx):
    """stand-alone runs: violations are printed, no replay file is written"""

    def violation(self, signature, replay_obj, what, no_input=False):
        print(f"VIOLATION (stand-alone) {signature!r}" + (" no-failing-input-found" if no_input else ""))
        print("  " + what)
        for k in ("polar_types", "model_types", "variable", "value", "iteration"):
            if k in replay_obj:
                print(f"    {k}: {replay_obj[k]}")
        self.violations.append(signature)
        return True


def main():
    ctx = ScratchCtx("C05", "quick", 1)
    try:
        st = run_model(ctx, [])
    finally:
        import shutil
        shutil.rmtree(ctx.scratch, ignore_errors=True)
    bad = len(ctx.violations)
    print(f"typer_model: probes={st.get('probes')} instances={st.get('instances')} model==polar={st.get('model_equals_polar')} "
          f"cascade_used={st.get('cascade_used')} declared_types_used={st.get('declared_types_used')} "
          f"symbolic={st.get('symbolic_values_involved')} symbolic_mismatch_not_alarmed={st.get('symbolic_mismatch_not_alarmed')} "
          f"theorem_hypotheses_hold={st.get('theorem_hypotheses_hold')} violations={bad} polar_errors_on_probes={st.get('probe_polar_errors')}")
    return 1 if bad or st.get("instances", 0) == 0 or st.get("instances") != st.get("model_equals_polar", 0) + st.get("symbolic_mismatch_not_alarmed", 0) else 0


if __name__ == "__main__":
    sys.exit(main())
