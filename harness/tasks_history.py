"""Worker tasks for C20 (history / goal order / hash seed).  `task_history` executes a whole
HISTORY of analyses inside ONE call, i.e. one worker process, exactly the way polar.py does
for several benchmark files: nothing is reset between the steps (global name counter,
settings module, class attributes and lru_caches are left as the previous step left them).

step kinds
  {"op": "goals", "text", "goals": [...]}      GoalsAction's path: parse_program / normalize_program /
                                               RecBuilder / cli.common.get_moment with one shared solver dict
  {"op": "plot",  "text", "goals": [g]}        the REAL PlotAction.__call__ (--plot g --plot_expectation --plot_std) with the
                                               simulator and the plot classes replaced by stubs that record the moments
                                               handed to the plot (PlotAction switches settings.numeric_croots / numeric_roots on)
  {"op": "argv",  "flags": [...]}              what polar.py does first: ArgumentParser().parse_args() (writes settings)
  {"op": "names", "tags": [...]}               calls utils.identifiers.get_unique_var(tag) for each tag
The answer lists, per step, a canonical record: types of the source variables, per goal the
closed form (text), exact values for n <= nvals, exactness flag, solver, system (monomials,
matrix, vector) or the error class, and the flat program text."""
import os
import sys
import tempfile
from argparse import Namespace
from fractions import Fraction

import sympy as sp


def _err(e, stage):
    from tasks_core import classify_exception
    c = classify_exception(e)
    return {"stage": stage, "etype": c["etype"], "raiser": c["raiser"], "msg": c["msg"][:200]}


def _value(sol, n, i):
    v = sol.subs(n, i)
    v = sp.simplify(v)
    if v.is_Rational:
        return f"{v.p}/{v.q}"
    import exppoly
    v = exppoly.exact(v)
    if v.is_Rational:
        return f"{v.p}/{v.q}"
    if v.free_symbols:
        return "sym:" + sp.srepr(sp.expand(v))
    return "~" + str(sp.N(v, 25))


def _types(program):
    from tasks_core import dump_types
    src = {str(v) for v in program.original_variables}
    return [t for t in dump_types(program) if t[0] in src]


def _settings():
    from tasks_options import settings_snapshot
    from program.assignment import FunctionalAssignment
    d = settings_snapshot()
    d["FunctionalAssignment.exact_func_moments"] = bool(FunctionalAssignment.exact_func_moments)
    return d


def _counter():
    from utils import identifiers
    return identifiers._count_unique_var


def _analyze_goals(step, nvals, plot=False):
    """one analysis the way GoalsAction / PlotAction run it; NO resetting of any global state"""
    import settings
    import symengine
    from inputparser import Parser
    from program import normalize_program
    from recurrences import RecBuilder
    from cli.common import get_moment
    rec = {"op": step["op"], "counter_before": _counter(), "settings_before": _settings()}
    n = sp.Symbol("n", integer=True)
    try:
        program = Parser().parse_string(step["text"])
    except BaseException as e:  # noqa
        rec["error"] = _err(e, "parse")
        return rec
    try:
        program = normalize_program(program)
    except BaseException as e:  # noqa
        rec["error"] = _err(e, "normalize")
        rec["counter_after"] = _counter()
        return rec
    rec["types"] = _types(program)
    rec["flat_text"] = str(program)
    rec["source_variables"] = sorted(str(v) for v in program.original_variables)
    rb = RecBuilder(program)
    solvers = {}
    args = Namespace(solvability_check=False)
    goals = list(step["goals"])
    if plot:
        # PlotAction: settings switched on AFTER normalisation, second moment first, then the first moment
        settings.numeric_croots = True
        settings.numeric_roots = True
        g = step["goals"][0]
        goals = [f"({g})**2", g]
    rec["goals"] = []
    for g in goals:
        gr = {"goal": g}
        rec["goals"].append(gr)
        try:
            monom = symengine.sympify(g).expand()
            moment, is_exact = get_moment(monom, solvers, rb, args, program)
            solver = solvers[monom]
            recs = solver.solver.recurrences
            gr["closed_form"] = str(moment)
            gr["is_exact"] = bool(is_exact)
            gr["solver"] = type(solver.solver).__name__
            gr["values"] = [_value(sp.sympify(moment), n, i) for i in range(nvals)]
            gr["monomials"] = [str(m) for m in recs.monomials]
            gr["matrix"] = [[str(recs.recurrence_matrix[i, j]) for j in range(recs.recurrence_matrix.shape[1])]
                            for i in range(recs.recurrence_matrix.shape[0])]
            gr["vector"] = [str(x) for x in recs.init_values_vector]
        except BaseException as e:  # noqa
            gr["error"] = _err(e, "goal")
    rec["counter_after"] = _counter()
    rec["settings_after"] = _settings()
    return rec


def _plot_action(step, nvals):
    """PlotAction.__call__ as the CLI runs it for `--plot g --plot_expectation --plot_std`; only the simulation and
    the drawing are stubbed"""
    import cli.actions.plot_action as PA
    rec = {"op": "plot", "counter_before": _counter(), "settings_before": _settings()}
    n = sp.Symbol("n", integer=True)
    g = step["goals"][0]
    captured = {}

    class FakeSim:
        def __init__(self, *a, **k):
            pass

        def simulate(self, program, monoms, number_samples):
            return None

    class FakePlot:
        def __init__(self, result, monom, *args, **kw):
            captured["args"] = args

        def draw(self):
            pass

        def save(self, name):
            pass
    fd, path = tempfile.mkstemp(suffix=".prob")
    with os.fdopen(fd, "w") as f:
        f.write(step["text"])
    old = (PA.Simulator, PA.RunsPlot, PA.StatesPlot)
    PA.Simulator, PA.RunsPlot, PA.StatesPlot = FakeSim, FakePlot, FakePlot
    try:
        args = Namespace(plot=g, plot_expectation=True, plot_std=True, simulation_iter=1, number_samples=1, states_plot=False,
                         yscale="linear", anim_iter=False, anim_runs=False, anim_time=1.0, max_y=None, save=False, solvability_check=False)
        PA.PlotAction(args)(path)
        first, second = captured["args"][4], captured["args"][5]
        rec["goals"] = []
        for name, m in ((f"({g})**2", second), (g, first)):
            rec["goals"].append({"goal": name, "closed_form": str(m), "is_exact": None, "solver": None,
                                 "values": [_value(sp.sympify(m), n, i) for i in range(nvals)]})
    except BaseException as e:  # noqa
        rec["error"] = _err(e, "plot")
    finally:
        PA.Simulator, PA.RunsPlot, PA.StatesPlot = old
        os.unlink(path)
    rec["counter_after"] = _counter()
    rec["settings_after"] = _settings()
    return rec


def task_history(task):
    """task: steps [...], nvals.  Returns {"steps": [record per step]}"""
    nvals = task.get("nvals", 7)
    out = []
    for step in task["steps"]:
        op = step["op"]
        if op == "goals":
            out.append(_analyze_goals(step, nvals))
        elif op == "plot":
            out.append(_plot_action(step, nvals))
        elif op == "argv":
            from cli import ArgumentParser
            fd, path = tempfile.mkstemp(suffix=".prob")
            os.close(fd)
            old = sys.argv
            try:
                sys.argv = ["polar.py", path] + list(step.get("flags", []))
                ArgumentParser().parse_args()
                out.append({"op": op, "settings_after": _settings()})
            except BaseException as e:  # noqa
                out.append({"op": op, "error": _err(e, "argv")})
            finally:
                sys.argv = old
                os.unlink(path)
        elif op == "names":
            from utils import get_unique_var
            k0 = _counter()
            out.append({"op": op, "counter_before": k0, "names": [get_unique_var(t) if t is not None else get_unique_var() for t in step["tags"]],
                        "counter_after": _counter()})
        else:
            out.append({"op": op, "error": {"stage": "harness", "etype": "UnknownStep"}})
    return {"steps": out, "hashseed": os.environ.get("PYTHONHASHSEED")}
