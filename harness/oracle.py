"""Exact moments of source programs under the reference semantics Sem.run, evaluated inside
Coq (vm_compute) — the oracle independent of Polar."""
import re
from fractions import Fraction

import lib
import progast


def moments_file(cases):
    """cases: list of (prog, [mono dicts], N).  One definition per case."""
    body = progast.COQ_HEADER
    body += ("Definition moments (p : prog) (ms : list mono) (N : nat) : list (list (Z * positive)) :=\n"
             "  map (fun n => let d := run no_law p n st0 in map (fun m => qpair (E d (eval_mono m))) ms) (seq 0 (S N)).\n")
    for i, (p, ms, N) in enumerate(cases):
        body += f"Definition p{i} : prog := {progast.prog_coq(p)}.\n"
        body += f"Eval vm_compute in (moments p{i} {progast.lst([progast.mono_coq(m) for m in ms])} {N}).\n"
    return body


def parse_results(out):
    """-> list (per Eval) of list (per n) of list (per mono) of Fraction"""
    res = []
    for m in re.finditer(r"=\s*(\[.*?\])\s*:\s*list \(list \(Z \* positive\)\)", out, re.S):
        txt = m.group(1)
        rows = []
        depth = 0
        cur = None
        for tok in re.finditer(r"\[|\]|\(\s*(-?\d+)\s*,\s*(\d+)\s*\)", txt.replace("%Z", "").replace("%positive", "")):
            t = tok.group(0)
            if t == "[":
                depth += 1
                if depth == 2:
                    cur = []
            elif t == "]":
                if depth == 2:
                    rows.append(cur)
                depth -= 1
            else:
                cur.append(Fraction(int(tok.group(1)), int(tok.group(2))))
        res.append(rows)
    return res


def exact_moments(ctx, cases, per_file=8, timeout=600):
    files = []
    for j in range(0, len(cases), per_file):
        files.append((f"oracle_{j // per_file}", moments_file(cases[j:j + per_file])))
    outs = lib.coq_run_many(ctx, files, timeout=timeout)
    results = []
    for j in range(0, len(cases), per_file):
        ok, o = outs[f"oracle_{j // per_file}"]
        chunk = cases[j:j + per_file]
        rs = parse_results(o) if ok else []
        if len(rs) != len(chunk):
            results += [None] * len(chunk)
        else:
            results += rs
    return results
