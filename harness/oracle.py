"""Exact moments of source programs under the reference semantics Sem.run, evaluated inside
Coq (vm_compute) — the oracle independent of Polar.  For speed the distribution is compacted
after every iteration (Search.run_c: states equal on all program variables are merged); the
compacted computation is cross-checked against the plain Sem.run for n <= 2 in the same run."""
import re
from fractions import Fraction

import lib
import progast


def moments_file(p, ms, N, cross=2):
    body = progast.COQ_HEADER.replace("Syntax Sem", "Syntax Sem Types Search")
    vs = progast.prog_vars(p)
    body += f"Definition p0 : prog := {progast.prog_coq(p)}.\n"
    body += f"Definition ms0 : list mono := {progast.lst([progast.mono_coq(m) for m in ms])}.\n"
    vl = progast.lst(['"%s"' % v for v in vs])
    body += f"Eval vm_compute in (src_moments_c {vl} p0 ms0 {N}).\n"
    body += f"Eval vm_compute in (src_moments p0 ms0 {min(cross, N)}).\n"
    return body


def parse_results(out):
    """-> list (per Eval) of list (per n) of list (per mono) of Fraction"""
    res = []
    for m in re.finditer(r"=\s*(\[.*?\])\s*:\s*list \(list \(Z \* positive\)\)", out, re.S):
        txt = m.group(1)
        rows = []
        depth = 0
        cur = None
        for tok in re.finditer(r"\[|\]|\(\s*(-?\d+)\s*,\s*(\d+)\s*\)", re.sub(r"\((-\d+)\)", r"\1", txt.replace("%Z", "").replace("%positive", ""))):
            t = tok.group(0)
            if t == "[":
                depth += 1
                if depth == 2:
                    cur = []
            elif t == "]":
                if depth == 2:
                    rows.append(cur)
                depth -= 1
            else:
                cur.append(Fraction(int(tok.group(1)), int(tok.group(2))))
        res.append(rows)
    return res


def exact_moments(ctx, cases, per_file=1, timeout=300):
    """cases: list of (prog, [mono dicts], N) -> list of (rows | None); rows[n][i] = E[m_i] after n iterations"""
    files = [(f"oracle_{j}", moments_file(p, ms, N)) for j, (p, ms, N) in enumerate(cases)]
    outs = lib.coq_run_many(ctx, files, timeout=timeout)
    results = []
    for j, (p, ms, N) in enumerate(cases):
        ok, o = outs[f"oracle_{j}"]
        rs = parse_results(o) if ok else []
        if len(rs) != 2 or len(rs[0]) != N + 1 or any(len(r) != len(ms) for r in rs[0]):
            results.append(None)
            continue
        if rs[0][:len(rs[1])] != rs[1]:
            raise RuntimeError("oracle self-check failed: compacted and plain semantics disagree on\n" + progast.prog_text(p))
        results.append(rs[0])
    return results
