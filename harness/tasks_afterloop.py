"""Worker task for C09 (moments after termination): runs the REAL --after_loop code path of
Polar on a program text.  The arguments are built by Polar's own argument parser from the
command line `polar.py <file> --goals ... --after_loop`, the program is parsed/normalised as
GoalsAction.__call__ does, and every goal is handled by the real GoalsAction.handle_*_goal
(which calls cli.common.get_moment_given_termination / get_all_moments_given_termination and
transform_to_after_loop).  Besides the printed value the task returns
  * the conditional sequence (value of the real get_moment_given_termination, resp. of the
    statistics conversion applied to get_all_moments_given_termination) at n = 0..nvals-1,
  * numerator / denominator closed forms obtained with the real cli.common.get_moment_poly
    on  monom * Not(original_loop_guard).to_arithm  and  Not(original_loop_guard).to_arithm,
    their expansion into monomials, and for every monomial the linear system Polar solved
    (matrix, initial vector, closed forms of all its monomials),
  * structural dumps of the flat program, the types and program.original_loop_guard."""
import io
import os
import sys
import tempfile
from fractions import Fraction

import sympy as sp

from exppoly import Unsupported
import exppoly
from tasks_core import dump_expr, dump_cond, dump_program, classify_exception


def _rat(v):
    v = exppoly.exact(v) if not getattr(v, "is_Rational", False) else v
    if v.is_Rational:
        return f"{v.p}/{v.q}"
    if v in (sp.oo, -sp.oo, sp.zoo, sp.nan):
        return "!" + str(v)
    return "~" + str(sp.N(v, 30))


def eval_at(e, k):
    """value of a closed form (possibly with nested Piecewise, plain or integer symbol n) at n = k"""
    e = sp.sympify(e)
    v = e.xreplace({sp.Symbol("n"): sp.Integer(k), sp.Symbol("n", integer=True): sp.Integer(k)})
    try:
        v = sp.piecewise_fold(v) if v.has(sp.Piecewise) else v
    except Exception:
        pass
    return v


def values(e, nvals):
    out = []
    for k in range(nvals):
        try:
            out.append(_rat(eval_at(e, k)))
        except Exception as ex:  # noqa
            out.append("!" + type(ex).__name__)
    return out


def plain_n(e):
    """the expression with the integer symbol n (solver output survives sympy arithmetic) replaced by
    sympy's integer n everywhere, so that harness/exppoly can decompose it"""
    n_i = sp.Symbol("n", integer=True)
    return sp.sympify(e).xreplace({sp.Symbol("n"): n_i})


def fold_pw(e):
    """Piecewise((.., n<=i), ..., (general, True)) possibly nested inside arithmetic -> one Piecewise"""
    e = plain_n(e)
    if e.has(sp.Piecewise) and not isinstance(e, sp.Piecewise):
        e = sp.piecewise_fold(e)
    return e


def cf_single(e, subs):
    """exp-poly data of ONE closed form: {"k", "gens", "specials": [..k values..], "general": epoly}"""
    from polar_tasks import closed_form_data, enc_cf
    n_i = sp.Symbol("n", integer=True)
    d = closed_form_data([fold_pw(e)], n_i, subs, 0)
    return enc_cf(d)


def dump_system(solver, nvals, subs):
    from polar_tasks import closed_form_data, enc_cf, numeric_values
    recs = solver.solver.recurrences
    n_i = sp.Symbol("n", integer=True)
    sols = [solver.get(m) for m in recs.monomials]
    comp = list(sols)
    if recs.is_inhomogeneous:
        comp.append(sp.Integer(1))
    out = {"monomials": [str(m) for m in recs.monomials], "monomial_dumps": [dump_expr(m) for m in recs.monomials],
           "is_inhomogeneous": bool(recs.is_inhomogeneous), "solver": type(solver.solver).__name__,
           "is_exact": bool(solver.is_exact), "sols": [str(s) for s in sols],
           "matrix": [[str(recs.recurrence_matrix[i, j]) for j in range(recs.recurrence_matrix.shape[1])]
                      for i in range(recs.recurrence_matrix.shape[0])],
           "vector": [str(x) for x in recs.init_values_vector]}
    inst = {"point": {}}
    try:
        inst["A"] = [[str(exppoly.exact(sp.sympify(x).subs(subs))) for x in row] for row in out["matrix"]]
        inst["v"] = [str(exppoly.exact(sp.sympify(x).subs(subs))) for x in out["vector"]]
        inst["cf"] = enc_cf(closed_form_data(comp, n_i, subs, 0))
    except Unsupported as u:
        inst["unsupported"] = str(u)
    except BaseException as e:  # noqa
        inst["unsupported"] = f"{type(e).__name__}: {e}"
    try:
        inst["values"] = numeric_values(comp, n_i, subs, nvals)
    except BaseException as e:  # noqa
        inst["values_error"] = str(e)[:300]
    out["instance"] = inst
    return out


def expansion(poly):
    """the monomials get_moment_poly asks moments for, with their coefficients, and the constant term"""
    from utils.expressions import get_monoms
    e = poly.expand()
    terms = [[str(exppoly.exact(sp.sympify(str(c)))), str(m), dump_expr(m)] for c, m in get_monoms(e)]
    const = e
    for c, m in get_monoms(e):
        const = const - c * m
    return terms, str(exppoly.exact(sp.sympify(str(const.expand()))))


def task_afterloop(task):
    nvals = int(task.get("nvals", 9))
    goals = list(task["goals"])
    res = {"goals": []}
    fd, path = tempfile.mkstemp(suffix=".prob", prefix="c09_")
    with os.fdopen(fd, "w") as f:
        f.write(task["text"])
    try:
        # the command line of  polar.py <file> --goals g1 g2 ... --after_loop  through Polar's own parser
        from cli.argument_parser import ArgumentParser, _set_settings
        argv = [path, "--goals"] + goals + ["--after_loop"] + list(task.get("extra_args", []))
        args = ArgumentParser().argument_parser.parse_args(argv)
        _set_settings(args)
        res["args"] = {"after_loop": bool(args.after_loop), "at_n": args.at_n, "tail_bound_moments": args.tail_bound_moments}
        from cli.actions.goals_action import GoalsAction
        from cli import common
        from inputparser import parse_program, GoalParser, MOMENT, CUMULANT, CENTRAL
        from program import normalize_program
        from recurrences import RecBuilder
        from program.condition.not_cond import Not
        from utils import raw_moments_to_cumulants, raw_moments_to_centrals
        try:
            program = parse_program(path)
            res["source_guard"] = dump_cond(program.loop_guard)
        except BaseException as e:  # noqa
            res["stage"] = "parse"
            res["exception"] = classify_exception(e)
            return res
        try:
            program = normalize_program(program)
        except BaseException as e:  # noqa
            res["stage"] = "normalize"
            res["exception"] = classify_exception(e)
            return res
        try:
            res["flat"] = dump_program(program)
        except Unsupported as u:
            res["flat"] = {"unsupported": str(u)}
        res["flat_text"] = str(program)
        try:
            res["original_loop_guard"] = dump_cond(program.original_loop_guard)
        except Unsupported as u:
            res["original_loop_guard"] = None
        res["original_loop_guard_text"] = str(program.original_loop_guard)
        # variables that are not initialised before the loop (the _old copies made by IfTransformer): Polar
        # uses the symbol <var>0 for their initial value; the harness fixes the start state to the smallest
        # value of the variable's type (Search.typed_start) and extends the initial block accordingly
        init_vars = {str(a.variable) for a in program.initial}
        init_ext, subs = [], {}
        for var in sorted(program.variables, key=str):
            if str(var) in init_vars:
                continue
            t = program.typedefs.get(var)
            val = sp.Integer(0)
            if type(t).__name__ == "Finite":
                val = min(sp.nsimplify(sp.sympify(str(x)), rational=True) for x in t.values)
            init_ext.append([str(var), f"{val.p}/{val.q}"])
            subs[sp.Symbol(f"{var}0")] = val
        res["init_extension"] = init_ext
        action = GoalsAction(args)
        rec_builder = RecBuilder(program)
        action.initialize_program(program, rec_builder)
        parsed_goals = action.parse_goals()
        systems = {}       # id(solver) -> index
        res["systems"] = []
        # the indicator polynomial exactly as get_moment_given_termination builds it
        try:
            neg = Not(program.original_loop_guard).to_arithm(program)
            res["neg_guard_poly"] = dump_expr(neg)
        except BaseException as e:  # noqa
            res["stage"] = "indicator"
            res["exception"] = classify_exception(e)
            return res
        for gtext, (gtype, gdata) in zip(goals, parsed_goals):
            gr = {"goal": gtext, "type": gtype}
            res["goals"].append(gr)
            import time as _time
            _t0 = _time.time()
            try:
                buf = io.StringIO()
                old = sys.stdout
                sys.stdout = buf
                try:
                    if gtype == MOMENT:
                        monom = gdata[0]
                        order = 1
                        value, is_exact = action.handle_moment_goal(gdata)
                        action.print_moment_goal(gdata[0], value, is_exact, is_probabilistic=program.is_probabilistic)
                    elif gtype == CUMULANT:
                        order, monom = gdata[0], gdata[1]
                        value, is_exact = action.handle_cumulant_goal(gdata)
                        action.print_cumulant_goal(gdata[0], gdata[1], value, is_exact)
                    elif gtype == CENTRAL:
                        order, monom = gdata[0], gdata[1]
                        value, is_exact = action.handle_central_moment_goal(gdata)
                        action.print_central_moment_goal(gdata[0], gdata[1], value, is_exact)
                    else:
                        raise Unsupported(f"goal type {gtype}")
                finally:
                    sys.stdout = old
                gr["printed"] = buf.getvalue().strip().splitlines()[0] if buf.getvalue().strip() else ""
                gr["after_loop"] = str(value)
                gr["after_loop_value"] = _rat(value) if not sp.sympify(value).free_symbols else "?" + str(value)
                if sp.sympify(value).free_symbols:
                    gr["after_loop_values"] = values(value, nvals)
                gr["is_exact"] = bool(is_exact)
                gr["seconds_after_loop"] = round(_time.time() - _t0, 2)
                gr["monom"] = str(monom)
                gr["order"] = int(order)
            except BaseException as e:  # noqa
                gr["stage"] = "after_loop"
                gr["exception"] = classify_exception(e)
                continue
            # (a) the conditional sequence, from the real functions (solvers are cached in action.solvers)
            try:
                if gtype == MOMENT:
                    cond, _ = common.get_moment_given_termination(monom, action.solvers, rec_builder, args, program)
                    raws = {1: cond}
                else:
                    raws, _ = common.get_all_moments_given_termination(monom, order, action.solvers, rec_builder, args, program)
                    conv = raw_moments_to_cumulants(raws) if gtype == CUMULANT else raw_moments_to_centrals(raws)
                    cond = conv[order]
                gr["cond"] = str(cond)
                gr["cond_values"] = values(cond, nvals)
                gr["raw_cond_values"] = {str(i): values(r, nvals) for i, r in raws.items()}
            except BaseException as e:  # noqa
                gr["stage"] = "conditional-sequence"
                gr["exception"] = classify_exception(e)
                continue
            # numerator / denominator with the real get_moment_poly, per raw order
            gr["parts"] = {}
            for i in sorted(raws):
                part = {}
                gr["parts"][str(i)] = part
                try:
                    den, _ = common.get_moment_poly(neg, action.solvers, rec_builder, args, program)
                    num, _ = common.get_moment_poly(monom ** i * neg, action.solvers, rec_builder, args, program)
                    den, num = sp.sympify(den), sp.sympify(num)
                    part["num"], part["den"] = str(num), str(den)
                    part["num_values"], part["den_values"] = values(num, nvals), values(den, nvals)
                    part["num_terms"], part["num_const"] = expansion(monom ** i * neg)
                    part["den_terms"], part["den_const"] = expansion(neg)
                    for key, e in (("num_cf", num), ("den_cf", den)):
                        try:
                            part[key] = cf_single(e, subs)
                        except Unsupported as u:
                            part[key + "_unsupported"] = str(u)
                        except BaseException as ex:  # noqa
                            part[key + "_unsupported"] = f"{type(ex).__name__}: {ex}"
                    for _, mtxt, _ in part["num_terms"] + part["den_terms"]:
                        import symengine
                        s = action.solvers[symengine.sympify(mtxt)]
                        if id(s) not in systems:
                            systems[id(s)] = len(res["systems"])
                            res["systems"].append(dump_system(s, nvals, subs))
                    part["term_system"] = {mtxt: systems[id(action.solvers[symengine.sympify(mtxt)])]
                                           for _, mtxt, _ in part["num_terms"] + part["den_terms"]}
                except BaseException as e:  # noqa
                    part["exception"] = classify_exception(e)
        return res
    finally:
        try:
            os.unlink(path)
        except OSError:
            pass


def task_limit(task):
    """limit n -> infinity of an expression in n the way the repaired transform_to_after_loop would take it
    (one integer symbol n everywhere); used to keep checking the printed value when Polar took no limit"""
    from sympy import limit_seq
    n_i = sp.Symbol("n", integer=True)
    e = sp.sympify(task["expr"]).xreplace({sp.Symbol("n"): n_i})
    try:
        lim = limit_seq(e, n_i)
    except BaseException as ex:  # noqa
        return {"error": "limit", "msg": f"{type(ex).__name__}: {ex}"[:300]}
    if lim is None:
        return {"limit": None}
    return {"limit": _rat(lim) if not sp.sympify(lim).free_symbols else "?" + str(lim)}


def task_afterloop_tail(task):
    """tail-bound goals through the real --after_loop path: `polar.py f --goals "E(M)" "E(M**2)" "P(M >= a) <= ?"
    "P(M > a) >= ?" --after_loop`; returns the after-loop raw moments and the printed bounds (exact rationals or 'oo')."""
    mon, a = task["monom"], task["a"]
    goals = [f"E({mon})", f"E(({mon})**2)", f"P({mon} >= {a}) <= ?", f"P({mon} > {a}) >= ?"]
    res = {"goals": goals}
    fd, path = tempfile.mkstemp(suffix=".prob", prefix="c09t_")
    with os.fdopen(fd, "w") as f:
        f.write(task["text"])
    try:
        from cli.argument_parser import ArgumentParser, _set_settings
        args = ArgumentParser().argument_parser.parse_args([path, "--goals"] + goals + ["--after_loop"])
        _set_settings(args)
        from cli.actions.goals_action import GoalsAction
        from inputparser import parse_program
        from program import normalize_program
        from recurrences import RecBuilder
        try:
            program = normalize_program(parse_program(path))
        except BaseException as e:  # noqa
            res["stage"] = "normalize"
            res["exception"] = classify_exception(e)
            return res
        action = GoalsAction(args)
        action.initialize_program(program, RecBuilder(program))
        parsed = action.parse_goals()
        out = {}
        for key, (gtype, gdata) in zip(["m1", "m2", "upper", "lower"], parsed):
            buf, old = io.StringIO(), sys.stdout
            sys.stdout = buf
            try:
                if key in ("m1", "m2"):
                    value, _ = action.handle_moment_goal(gdata)
                    out[key] = _rat(value) if not sp.sympify(value).free_symbols else "?" + str(value)
                elif key == "upper":
                    action.handle_tail_bound_upper_goal(gdata)
                else:
                    action.handle_tail_bound_lower_goal(gdata)
            except BaseException as e:  # noqa
                sys.stdout = old
                res["stage"] = key
                res["exception"] = classify_exception(e)
                return res
            finally:
                sys.stdout = old
            out[key + "_printed"] = buf.getvalue()
        res.update(out)
        return res
    finally:
        try:
            os.unlink(path)
        except OSError:
            pass
