"""Worker tasks (run inside the process that imports the REAL Polar from lib.REPO) for the
invariant properties C16 / C06 / C07: exponent lattices and invariant ideals."""
import time

import sympy as sp


def _parse_bases(strs):
    return [sp.sympify(s) for s in strs]


def task_lattice(task):
    """task: bases (list of sympy-parsable strings) -> basis returned by the real
    ExponentLattice(bases).compute_basis() as a list of lists of ints"""
    from invariants.exponent_lattice import ExponentLattice
    bases = _parse_bases(task["bases"])
    t0 = time.time()
    lat = ExponentLattice(bases)
    triv = bool(lat.is_trivially_empty())
    basis = lat.compute_basis()
    out = []
    for row in basis:
        r = []
        for x in row:
            xi = int(x)
            r.append(xi)
        out.append(r)
    return {"basis": out, "trivially_empty": triv, "seconds": round(time.time() - t0, 3),
            "all_rational": all(bool(b.is_rational) for b in bases)}


def _closed_forms(task):
    n = sp.Symbol("n", integer=True)
    cfs = {}
    for name, s in task["closed_forms"]:
        cfs[name] = sp.sympify(s, locals={"n": n})
    return n, cfs


def _poly_json(expr, names):
    """sympy polynomial in the goal symbols -> [[coeff 'p/q', [exponents]], ...] (exact)"""
    syms = [sp.Symbol(g) for g in names]
    extra = expr.free_symbols - set(syms)
    if extra:
        return None
    P = sp.Poly(sp.expand(expr), *syms, domain="QQ")
    return [[f"{sp.Rational(c).p}/{sp.Rational(c).q}", [int(x) for x in mon]] for mon, c in P.terms()]


class _LatticeOverride:
    """replace, inside this worker process only, ExponentLattice as seen by InvariantIdeal by a stub
    returning a supplied basis (used to attribute a false invariant to the exponent lattice)"""

    def __init__(self, spec):
        self.spec = spec

    def __enter__(self):
        import invariants.invariant_ideal as ii
        self.ii = ii
        self.orig = ii.ExponentLattice
        if self.spec is None:
            return self
        spec = self.spec

        class Stub:
            def __init__(self, bases):
                got = [str(b) for b in bases]
                if got != list(spec["bases"]):
                    raise RuntimeError(f"lattice override for {spec['bases']} but bases are {got}")

            def compute_basis(self):
                return [list(r) for r in spec["basis"]]

        ii.ExponentLattice = Stub
        return self

    def __exit__(self, *a):
        self.ii.ExponentLattice = self.orig
        return False


class _LatticeIdealSpy:
    """observe, inside this worker process only, every LatticeIdeal.compute_basis() call: the lattice rows and
    symbols it was given and the generator equations it builds (those handed to groebner, or the returned set when
    no inverse symbol is needed).  Used for the correspondence with the Gallina model LatticeIdealModel.generators."""

    def __init__(self):
        self.calls = []

    def __enter__(self):
        import invariants.lattice_ideal as li
        self.li = li
        self.orig = li.LatticeIdeal.compute_basis
        spy = self

        def compute_basis(obj):
            cap = {}
            og = li.groebner

            def g(eqs, *syms, **kw):
                cap["eqs"] = list(eqs)
                return og(eqs, *syms, **kw)

            li.groebner = g
            try:
                res = spy.orig(obj)
            finally:
                li.groebner = og
            eqs = cap.get("eqs", list(res))
            syms = list(obj.symbols)
            inv = []
            for j, x in enumerate(syms):
                inv.append(obj.inverse_symbols.get(x, sp.Symbol(f"__unused_inverse_{j}")))
            known = set(syms) | set(inv)
            polys = []
            for e in eqs:
                if sp.sympify(e).free_symbols - known:
                    polys.append(None)
                    continue
                P = sp.Poly(sp.expand(e), *(syms + inv), domain="QQ")
                polys.append([[f"{sp.Rational(c).p}/{sp.Rational(c).q}", [int(t) for t in mon]] for mon, c in P.terms()])
            spy.calls.append({"rows": [[int(t) for t in r] for r in obj.lattice_basis], "k": len(syms),
                              "equations": polys, "equations_str": sorted(str(e) for e in eqs),
                              "used_inverses": sorted(syms.index(x) for x in obj.inverse_symbols)})
            return res

        li.LatticeIdeal.compute_basis = compute_basis
        return self

    def __exit__(self, *a):
        self.li.LatticeIdeal.compute_basis = self.orig
        return False


def _basis_out(basis, names):
    polys = [_poly_json(b, names) for b in basis]
    return {"basis": polys, "basis_str": sorted(str(b) for b in basis),
            "nongoal_elements": [str(b) for b, p in zip(basis, polys) if p is None]}


def task_invariant_ideal(task):
    """closed_forms: [[goal name, sympy string in n], ...] ->
    InvariantIdeal(closed_forms).compute_basis() as exact polynomial data"""
    from invariants.invariant_ideal import InvariantIdeal
    n, cfs = _closed_forms(task)
    t0 = time.time()
    with _LatticeOverride(task.get("lattice_override")), _LatticeIdealSpy() as lspy:
        ideal = InvariantIdeal(cfs)
        bases = [str(k) for k in ideal.base_to_symbol.keys()]
        basis = list(ideal.compute_basis())
    names = [g for g, _ in task["closed_forms"]]
    symbolic = sorted(str(b) for b in basis)
    if task.get("params"):
        # symbolic program constants: the basis was computed with them as symbols; it is handed on instantiated at a
        # rational point (the harness instantiates the closed forms at the same point)
        pt = {sp.Symbol(k): sp.Rational(v) for k, v in task["params"].items()}
        basis = [sp.expand(sp.sympify(b).subs(pt)) for b in basis]
        basis = [b for b in basis if b != 0]
    out = _basis_out(basis, names)
    out.update({"exp_bases": bases, "seconds": round(time.time() - t0, 3), "basis_symbolic_str": symbolic,
                "lattice_ideal_calls": lspy.calls})
    return out


def task_program_invariants(task):
    """program text + goals (e.g. ['E(a)', 'E(b)']) -> what `polar.py FILE --goals ... --invariants`
    computes: runs the real CLI path (ArgumentParser -> ActionFactory -> GoalsAction) and observes,
    by wrapping from this harness process, the closed forms handed to InvariantIdeal and the basis
    it returns; the printed "Invariants" section is returned too."""
    import contextlib
    import io
    import os
    import re
    import sys
    import tempfile
    import cli.actions.goals_action as ga
    from cli import ArgumentParser
    from cli.actions import ActionFactory
    rec = {}
    Orig = ga.InvariantIdeal

    class Spy(Orig):
        def __init__(self, closed_forms):
            rec["closed_forms"] = [(str(k), v) for k, v in closed_forms.items()]
            super().__init__(closed_forms)

        def compute_basis(self):
            rec["exp_bases"] = [str(k) for k in self.base_to_symbol.keys()]
            b = super().compute_basis()
            rec["basis"] = list(b)
            return b

    with tempfile.NamedTemporaryFile("w", suffix=".prob", delete=False) as f:
        f.write(task["program"])
        path = f.name
    old_argv = sys.argv
    ga.InvariantIdeal = Spy
    buf = io.StringIO()
    t0 = time.time()
    try:
        sys.argv = ["polar.py", path, "--goals"] + list(task["goals"]) + ["--invariants"]
        args = ArgumentParser().parse_args()
        action = ActionFactory.create_action(args)
        with contextlib.redirect_stdout(buf), _LatticeOverride(task.get("lattice_override")):
            action(path)
    finally:
        ga.InvariantIdeal = Orig
        sys.argv = old_argv
        os.unlink(path)
    text = re.sub(r"\x1b\[[0-9;]*m", "", buf.getvalue())
    printed = []
    if "Invariants" in text:
        tail = text[text.index("Invariants"):]
        printed = [l[:-4].strip() for l in tail.splitlines() if l.strip().endswith("= 0")]
    if "closed_forms" not in rec:
        return {"error": "exception", "etype": "NoInvariantIdealCall", "msg": text[-500:]}
    names = [k for k, _ in rec["closed_forms"]]
    out = _basis_out(rec["basis"], names)
    out.update({"goal_ids": names, "closed_forms": [[k, str(v)] for k, v in rec["closed_forms"]],
                "exp_bases": rec.get("exp_bases", []), "printed": sorted(printed), "class": type(action).__name__,
                "seconds": round(time.time() - t0, 3)})
    return out
