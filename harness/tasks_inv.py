"""Worker tasks (run inside the process that imports the REAL Polar from lib.REPO) for the
invariant properties C16 / C06 / C07: exponent lattices and invariant ideals."""
import time

import sympy as sp


def _parse_bases(strs):
    return [sp.sympify(s) for s in strs]


def task_lattice(task):
    """task: bases (list of sympy-parsable strings) -> basis returned by the real
    ExponentLattice(bases).compute_basis() as a list of lists of ints"""
    from invariants.exponent_lattice import ExponentLattice
    bases = _parse_bases(task["bases"])
    t0 = time.time()
    lat = ExponentLattice(bases)
    triv = bool(lat.is_trivially_empty())
    basis = lat.compute_basis()
    out = []
    for row in basis:
        r = []
        for x in row:
            xi = int(x)
            r.append(xi)
        out.append(r)
    return {"basis": out, "trivially_empty": triv, "seconds": round(time.time() - t0, 3),
            "all_rational": all(bool(b.is_rational) for b in bases)}


def _closed_forms(task):
    n = sp.Symbol("n", integer=True)
    cfs = {}
    for name, s in task["closed_forms"]:
        cfs[name] = sp.sympify(s, locals={"n": n})
    return n, cfs


def _poly_json(expr, names):
    """sympy polynomial in the goal symbols -> [[coeff 'p/q', [exponents]], ...] (exact)"""
    syms = [sp.Symbol(g) for g in names]
    extra = expr.free_symbols - set(syms)
    if extra:
        raise ValueError(f"basis element mentions non-goal symbols {sorted(map(str, extra))}")
    P = sp.Poly(sp.expand(expr), *syms, domain="QQ")
    return [[f"{sp.Rational(c).p}/{sp.Rational(c).q}", [int(x) for x in mon]] for mon, c in P.terms()]


def task_invariant_ideal(task):
    """closed_forms: [[goal name, sympy string in n], ...] ->
    InvariantIdeal(closed_forms).compute_basis() as exact polynomial data"""
    from invariants.invariant_ideal import InvariantIdeal
    n, cfs = _closed_forms(task)
    t0 = time.time()
    ideal = InvariantIdeal(cfs)
    bases = {str(k): str(v) for k, v in ideal.base_to_symbol.items()}
    basis = ideal.compute_basis()
    names = [g for g, _ in task["closed_forms"]]
    return {"basis": [_poly_json(b, names) for b in basis], "basis_str": sorted(str(b) for b in basis),
            "exp_bases": bases, "seconds": round(time.time() - t0, 3)}


def task_program_invariants(task):
    """program text + goals (e.g. ['E(a)', 'E(b)']): the CLI path of `polar.py --goals ... --invariants`:
    closed forms exactly as GoalsAction computes them, then handle_invariants' InvariantIdeal."""
    import io
    import contextlib
    from argparse import Namespace
    import tempfile
    import os
    from cli.actions.goals_action import GoalsAction
    from cli.argument_parser import ArgumentParser
    with tempfile.NamedTemporaryFile("w", suffix=".prob", delete=False) as f:
        f.write(task["program"])
        path = f.name
    try:
        argv = [path, "--goals"] + list(task["goals"]) + ["--invariants"]
        ap = ArgumentParser()
        args = ap.argument_parser.parse_args(argv)
        args = ap.get_defined_arguments(args) if hasattr(ap, "get_defined_arguments") else args
        action = GoalsAction(args)
        buf = io.StringIO()
        with contextlib.redirect_stdout(buf):
            action(path)
        text = buf.getvalue()
    finally:
        os.unlink(path)
    return {"stdout": text}
