"""Worker task for harness/pass_abstraction.py (C02, Bernoulli abstraction of ConditionsNormalizer).

kind "abs_analyze": like "analyze" (tasks_core.task_analyze, same arguments), but the
probability symbols `_probK` that the abstraction introduces are given values computed HERE,
independently of Polar and of the Coq model: the joint law of the assignments the abstracted
condition is computed from is enumerated from the structural dump of the flat program
(exact rationals) and the dumped condition is evaluated on every outcome
(tasks_core.eval_cond_dump).  The generated names depend on a process-global counter, so the
program is normalised once to learn the names and the counter is put back before the real run."""
from fractions import Fraction

import tasks_core as TC
from exppoly import Unsupported


def _poly_vars(d):
    return {x for _, mon in d for x, _ in mon}


def _cond_vars(c):
    k = c[0]
    if k == "atom":
        return _poly_vars(c[1]) | _poly_vars(c[3])
    if k == "not":
        return _cond_vars(c[1])
    if k in ("and", "or"):
        return _cond_vars(c[1]) | _cond_vars(c[2])
    return set()


def _rhs_vars(r):
    if r[0] == "choice":
        out = set()
        for p, e in r[1]:
            out |= _poly_vars(p) | _poly_vars(e)
        return out
    d = r[1]
    if d[0] == "bern":
        return _poly_vars(d[1])
    if d[0] == "cat":
        out = set()
        for p in d[1]:
            out |= _poly_vars(p)
        return out
    if d[0] == "unif":
        return set()
    raise Unsupported("continuous draw")


def _rhs_law(r, env):
    """[(weight, value)] of a dumped right-hand side in the environment env"""
    if r[0] == "choice":
        return [(TC.eval_poly_dump(p, env), TC.eval_poly_dump(e, env)) for p, e in r[1]]
    d = r[1]
    if d[0] == "bern":
        q = TC.eval_poly_dump(d[1], env)
        return [(q, Fraction(1)), (1 - q, Fraction(0))]
    if d[0] == "cat":
        return [(TC.eval_poly_dump(p, env), Fraction(i)) for i, p in enumerate(d[1])]
    if d[0] == "unif":
        n = d[2] - d[1] + 1
        return [(Fraction(1, n), Fraction(v)) for v in range(d[1], d[2] + 1)]
    raise Unsupported("continuous draw")


def independent_prob(body, cond, limit=200000):
    """P(cond) at the end of the assignments of `body` (list of dump_assign dicts, each variable
    assigned once) that the variables of cond are computed from; None if they are not
    unconditional discrete assignments over each other"""
    need = set(_cond_vars(cond))
    by_var = {}
    for a in body:
        if "var" in a:
            by_var[a["var"]] = a
    order, seen, work = [], set(), list(need)
    try:
        while work:
            x = work.pop()
            if x in seen:
                continue
            seen.add(x)
            a = by_var.get(x)
            if a is None or a["cond"] != ["true"] or a["rhs"][0] not in ("choice", "draw"):
                return None
            work += list(_rhs_vars(a["rhs"]))
        order = [a for a in body if a.get("var") in seen]
        states = [(Fraction(1), {})]
        for a in order:
            new = []
            for w, env in states:
                if any(v not in env for v in _rhs_vars(a["rhs"])):
                    return None  # reads a value of the previous iteration
                for pw, val in _rhs_law(a["rhs"], env):
                    e2 = dict(env)
                    e2[a["var"]] = val
                    new.append((w * pw, e2))
            states = new
            if len(states) > limit:
                return None
        tot = Fraction(0)
        for w, env in states:
            if TC.eval_cond_dump(cond, env):
                tot += w
        return tot
    except (Unsupported, KeyError, ZeroDivisionError):
        return None


def task_abs_analyze(task):
    opts = task.get("opts", {})
    TC.reset_settings(opts)
    from inputparser import Parser
    from program import normalize_program
    from utils import identifiers
    c0 = identifiers._count_unique_var
    store = []
    try:
        program = normalize_program(Parser().parse_string(task["text"]))
        flat = TC.dump_program(program)
        for prob, cond in program.abstracted_const_store.items():
            cd = TC.dump_cond(cond)
            pr = independent_prob(flat["body"], cd)
            store.append([str(prob), cd, None if pr is None else f"{pr.numerator}/{pr.denominator}"])
    except BaseException:  # noqa  (the real run below reports the refusal)
        store = []
    identifiers._count_unique_var = c0
    t2 = dict(task)
    pts = {p: v for p, _, v in store if v is not None}
    t2["points"] = [pts]
    res = TC.task_analyze(t2)
    res["abs_store"] = store
    res["abs_names_stable"] = sorted(p for p, _, _ in store) == sorted(k for k, _ in res.get("abstractions", [])) if "abstractions" in res else None
    return res
