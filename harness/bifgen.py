"""Generator of BIF inputs for C15.

A case is built as an AST (the one the Coq model takes) and rendered to text from that AST,
so the two always denote the same file.  For valid cases the generator first draws the
TARGET conditional probability tables and then expresses them in one of the notations
(table / entries / default+entries / default+table / table+overriding entries / all three),
so the intended network is known independently of Polar and of the Coq model.

AST (JSON-able):
  vars  : [{"name", "types": [[n, [values]]], "props": [str]}]
  probs : [{"var", "parents": [names], "items": [["default", [lit]] | ["table", [lit]] |
            ["entry", [values], [lit]] | ["property", str]]}]
  order : [["var", i] | ["prob", j]]   block order in the text
Probability literals are decimal strings; their exact value is Fraction(Decimal(lit))."""
from decimal import Decimal
from fractions import Fraction
from itertools import product

NAME_POOL = [
    "A", "a", "B", "b", "Rain", "rain", "RAIN", "x-1", "x1", "X_1", "Node-7", "node7", "a-b", "ab", "A-B",
    "v2", "V-2", "Smoke", "smoke-", "T_a", "t-a", "ta", "c0unt", "count", "continue", "Continue", "ind_a",
    "inf-a", "z", "Zz", "z-z", "q9", "Q-9", "w_", "W", "k1", "K-1", "n", "N", "m-n", "mn",
]
# names whose sanitised form is a keyword of Polar's grammar or a symengine constant
RESERVED_POOL = ["E", "e", "Pi", "pi", "End", "If", "True", "else", "While", "oo", "zoo", "nan", "I", "types"]
DOMAIN_POOLS = [
    ["0", "1", "2", "3"], ["T", "F", "U", "V"], ["yes", "no", "maybe", "never"], ["low", "mid", "high", "top"],
    ["<5", "5-10", ">10", "=0"], ["a.b", "c_d", "e+f", "g*h"], ["1", "0", "3", "2"], ["True", "False", "x", "y"],
    ["s0", "s1", "s2", "s3"], ["0.5", "1.5", "2.5", "3.5"],
]
SIMPLE = set("abcdefghijklmnopqrstuvwxyzABCDEFGHIJKLMNOPQRSTUVWXYZ0123456789_-.<>+")


def lit_value(lit):
    return Fraction(Decimal(lit))


def render_lit(rng, fr):
    """decimal literal (lark common.FLOAT: needs '.' or an exponent) of a terminating fraction"""
    d = Decimal(fr.numerator) / Decimal(fr.denominator)
    s = format(d, "f")
    if "." not in s:
        s += ".0"
    assert Fraction(Decimal(s)) == fr, (s, fr)
    r = rng.random()
    if r < 0.08 and s.startswith("0.") and len(s) > 2:
        return s[1:]                      # .25
    if r < 0.14:
        return s + "0"                    # trailing zero
    if r < 0.20:
        # exponent form
        digits = s.replace(".", "").lstrip("0") or "0"
        exp = -(len(s) - s.index(".") - 1)
        return f"{digits}e{exp}"
    if r < 0.23 and s.endswith(".0"):
        return s[:-1]                     # "1."
    return s


def composition(rng, total, parts, allow_zero):
    if parts == 1:
        return [total]
    while True:
        cuts = sorted(rng.randint(0, total) for _ in range(parts - 1))
        vals = [b - a for a, b in zip([0] + cuts, cuts + [total])]
        if allow_zero or all(v > 0 for v in vals):
            return vals


def rand_row(rng, d, mode="exact"):
    """-> list of Fractions.  exact: sums to 1; near: |1-sum| <= 0.0005; far: |1-sum| >= 0.002"""
    if mode == "exact" and d >= 2 and rng.random() < 0.12:
        # bnlearn-style tiny entry (below 1e-4, seven significant digits) at a non-last position
        T = 10 ** 11
        tiny = rng.randint(1000001, 9999999)
        rest = composition(rng, T - tiny, d - 1, False)
        pos = rng.randrange(d - 1)
        vals = rest[:pos] + [tiny] + rest[pos:]
        return [Fraction(v, T) for v in vals]
    if mode == "exact":
        T = rng.choice([2, 4, 5, 8, 10, 10, 20, 100, 100, 1000])
        if T < d and rng.random() < 0.8:
            T = rng.choice([4, 8, 10, 20])
        allow_zero = rng.random() < 0.15 or T < d
        vals = composition(rng, T, d, allow_zero)
        return [Fraction(v, T) for v in vals]
    T = 10000
    vals = composition(rng, T, d, False) if d <= T else None
    i = rng.randrange(d)
    if mode == "near":
        delta = rng.choice([1, 3, 5, -1, -3, -5])
    else:
        delta = rng.choice([20, 100, 5000, -20, -100, -5000])
    if vals[i] + delta < 0:
        delta = -delta
    vals[i] += delta
    return [Fraction(v, T) for v in vals]


class Net:
    """intended network: names, domains, parents (indices), target CPT rows (Fractions) per key"""

    def __init__(self):
        self.names = []
        self.domains = []
        self.parents = []
        self.cpt = []      # list of dict key(tuple of value positions) -> [Fraction]

    def keys(self, i):
        return list(product(*[range(len(self.domains[p])) for p in self.parents[i]]))


def draw_names(rng, m, pool=None):
    pool = pool or NAME_POOL
    names = []
    while len(names) < m:
        if rng.random() < 0.25 and names:
            # a name colliding with an earlier one after sanitising (lower-case, '-' dropped)
            base = rng.choice(names)
            cand = rng.choice([base.upper(), base.lower(), base + "-", base.replace("-", ""), base.capitalize(),
                               base.replace("_", "-")])
        else:
            cand = rng.choice(pool)
        if cand and cand[0].isalpha() and cand not in names:
            names.append(cand)
    return names


def build_net(rng, max_vars=6, max_dom=4, max_par=3, shape=None, small=False, names=None):
    net = Net()
    m = rng.randint(1, max_vars) if not small else rng.randint(2, 4)
    if shape in ("cycle", "dup_parent") and m < 2:
        m = 2
    net.names = names(rng, m) if names else draw_names(rng, m)
    for _ in range(m):
        pool = rng.choice(DOMAIN_POOLS)
        d = rng.choice([1, 2, 2, 2, 3, 3, 4]) if not small else rng.choice([1, 2, 2, 3])
        d = min(d, max_dom)
        start = rng.randrange(len(pool) - d + 1)
        dom = pool[start:start + d]
        if rng.random() < 0.3:
            rng.shuffle(dom)
        net.domains.append(dom)
    order = list(range(m))
    rng.shuffle(order)           # a random topological order, unrelated to the declaration order
    pos = {v: i for i, v in enumerate(order)}
    net.parents = [[] for _ in range(m)]
    for v in range(m):
        earlier = [u for u in range(m) if pos[u] < pos[v]]
        k = min(len(earlier), rng.choice([0, 1, 1, 2, 2, max_par]))
        ps = rng.sample(earlier, k)
        # keep the number of rows moderate
        while ps and _rows(net, ps) > 48:
            ps.pop()
        net.parents[v] = ps
    if shape == "cycle":
        a, b = rng.sample(range(m), 2) if rng.random() < 0.7 else (0, 0)
        a = order[-1] if a != b else a
        b = order[0] if a != b else a
        if b not in net.parents[a] or a == b:
            pass
        # edge from the last variable of the order into the first one, plus a path back: make b a child of a
        if a not in net.parents[b]:
            net.parents[b] = net.parents[b] + [a]
        if a != b and b not in net.parents[a]:
            net.parents[a] = net.parents[a] + [b]
    if shape == "dup_parent":
        cands = [v for v in range(m) if net.parents[v]]
        if cands:
            v = rng.choice(cands)
            net.parents[v] = net.parents[v] + [net.parents[v][0]]
        else:
            v = order[-1]
            u = order[0]
            net.parents[v] = [u, u]
    for v in range(m):
        d = len(net.domains[v])
        table = {}
        for key in net.keys(v):
            mode = "near" if rng.random() < 0.08 else "exact"
            table[key] = rand_row(rng, d, mode)
        net.cpt.append(table)
    return net


def _rows(net, ps):
    r = 1
    for p in ps:
        r *= len(net.domains[p])
    return r


NOTATIONS = ["table", "entries", "default+entries", "default+table", "table+entries", "default+table+entries",
             "default"]


def express(rng, net, v, notation=None):
    """items (exact Fractions, rendered later) denoting net.cpt[v]"""
    keys = net.keys(v)
    d = len(net.domains[v])
    rows = [net.cpt[v][k] for k in keys]
    R = len(keys)
    has_par = bool(net.parents[v])
    if notation is None:
        if not has_par:
            notation = rng.choice(["table", "table", "default", "default+table"])
        else:
            notation = rng.choice(NOTATIONS[:-1])
    if not has_par and "entries" in notation:
        notation = "table"
    if notation == "default" and has_par and len(set(map(tuple, rows))) > 1:
        notation = "default+entries"

    def cond(key):
        return [net.domains[p][k] for p, k in zip(net.parents[v], key)]

    def table_of(rs):
        return [rs[r][i] for i in range(d) for r in range(R)]

    items = []
    if notation == "table":
        items = [["table", table_of(rows)]]
    elif notation == "entries":
        items = [["entry", cond(k), r] for k, r in zip(keys, rows)]
    elif notation == "default":
        items = [["default", rows[0]]]
    elif notation == "default+entries":
        dflt = rng.choice(rows)
        for k, r in zip(keys, rows):
            if r != dflt or rng.random() < 0.3:
                items.append(["entry", cond(k), r])
        items.append(["default", dflt])
    elif notation == "default+table":
        items = [["default", rand_row(rng, d)], ["table", table_of(rows)]]
    elif notation in ("table+entries", "default+table+entries"):
        other = list(rows)
        ents = []
        for j, k in enumerate(keys):
            if rng.random() < 0.4:
                other[j] = rand_row(rng, d)
                ents.append(["entry", cond(k), rows[j]])
            elif rng.random() < 0.15:
                ents.append(["entry", cond(k), rows[j]])
        items = [["table", table_of(other)]] + ents
        if notation.startswith("default"):
            items.append(["default", rand_row(rng, d)])
    else:
        raise ValueError(notation)
    rng.shuffle(items)
    return notation, items


def make_ast(rng, net, notations=None):
    vars_ = [{"name": n, "types": [[len(dom), list(dom)]], "props": []} for n, dom in zip(net.names, net.domains)]
    probs = []
    used = []
    for v in range(len(net.names)):
        nt, items = express(rng, net, v, None if notations is None else notations[v])
        used.append(nt)
        probs.append({"var": net.names[v], "parents": [net.names[p] for p in net.parents[v]],
                      "items": [_render_item(rng, it) for it in items]})
    pidx = list(range(len(probs)))
    rng.shuffle(pidx)
    # variable blocks keep their relative order (it is the declaration order = variable index);
    # probability blocks are shuffled and interleaved anywhere
    order = [["var", i] for i in range(len(vars_))]
    for j in pidx:
        pos = len(order) if rng.random() < 0.5 else rng.randrange(len(order) + 1)
        order.insert(pos, ["prob", j])
    for vv in vars_:
        if rng.random() < 0.2:
            vv["props"].append("position = (10, 20)")
    return {"vars": vars_, "probs": probs, "order": order}, used


def _render_item(rng, it):
    if it[0] == "entry":
        return ["entry", list(it[1]), [render_lit(rng, p) for p in it[2]]]
    return [it[0], [render_lit(rng, p) for p in it[1]]]


# ---------------------------------------------------------------- text
def _sep(rng, kind):
    if kind == "float":
        return rng.choice([", ", ", ", " ", "  ", ",", " | "]) if rng.random() < 0.9 else ", "
    if kind == "value":
        return rng.choice([", ", ",", " ", ", "])
    return ", "


def render(rng, ast, netname="net"):
    out = [f"network {netname} {{", "}" if rng.random() < 0.6 else "  property author verif;\n}"]
    if out[1] != "}":
        out = [out[0], out[1]]
    for kind, i in ast["order"]:
        if kind == "var":
            v = ast["vars"][i]
            out.append(f"variable {v['name']} {{")
            body = []
            for n, dom in v["types"]:
                vs = dom[0] if dom else ""
                for x in dom[1:]:
                    vs += _sep(rng, "value") + x
                body.append(f"  type discrete [ {n} ] {{ {vs} }};")
            for p in v["props"]:
                body.append(f"  property {p};")
            if len(body) > 1 and rng.random() < 0.5:
                body.reverse()
            out += body
            out.append("}")
            if rng.random() < 0.1:
                out.append("// a comment line")
        else:
            pb = ast["probs"][i]
            if pb["parents"]:
                ps = pb["parents"][0]
                for x in pb["parents"][1:]:
                    ps += rng.choice([", ", ",", " "]) + x
                head = f"( {pb['var']} | {ps} )" if rng.random() < 0.8 else f"( {pb['var']}, {ps} )"
            else:
                head = f"( {pb['var']} )"
            out.append(f"probability {head} {{")
            for it in pb["items"]:
                if it[0] == "property":
                    out.append(f"  property {it[1]};")
                    continue
                lits = it[-1]
                fs = lits[0] if lits else ""
                for x in lits[1:]:
                    fs += _sep(rng, "float") + x
                if it[0] == "entry":
                    vs = it[1][0] if it[1] else ""
                    for x in it[1][1:]:
                        vs += _sep(rng, "value") + x
                    out.append(f"  ({vs}) {fs};")
                else:
                    out.append(f"  {it[0]} {fs};")
            out.append("}")
            if rng.random() < 0.05:
                out.append("/* block comment */")
    return "\n".join(out) + "\n"


# ---------------------------------------------------------------- malformed stream
MALFORMED = ["missing_row", "table_len", "entry_probs_len", "entry_cond_len", "default_len", "sum_out_table",
             "sum_out_entry", "sum_out_default", "dup_entry", "two_tables", "two_defaults", "undefined_parent",
             "undefined_var", "bad_cond_value", "no_cpt", "two_cpts", "dup_var", "dom_dup", "size_mismatch",
             "two_types", "no_type", "dup_parent", "cycle", "text_int_literal", "text_missing_semicolon",
             "text_unknown_block", "text_empty_domain", "cond_order_swapped", "prob_property"]


def _blocks_with(ast, pred):
    return [pb for pb in ast["probs"] if pred(pb)]


def _has(pb, kind):
    return any(it[0] == kind for it in pb["items"])


def _bump(rng, lits, far=True):
    """change one literal so that the row sum leaves the tolerance"""
    i = rng.randrange(len(lits))
    v = lit_value(lits[i])
    delta = Fraction(rng.choice([2, 10, 500]), 1000)
    nv = v + delta if v + delta <= 2 and rng.random() < 0.6 else (v - delta if v - delta >= 0 else v + delta)
    lits[i] = render_lit(rng, nv)


def malform(rng, kind, max_vars=5):
    """-> (ast, text, info) ; info['expect_accept'] is set only for text-level cases"""
    info = {"malformed": kind}
    shape = kind if kind in ("cycle", "dup_parent") else None
    for _ in range(200):
        net = build_net(rng, max_vars=max_vars, shape=shape)
        m = len(net.names)
        notations = None
        if kind in ("missing_row", "dup_entry", "entry_probs_len", "entry_cond_len", "sum_out_entry", "bad_cond_value",
                    "cond_order_swapped"):
            if not any(net.parents):
                continue
            notations = [("entries" if net.parents[v] else None) for v in range(m)]
        if kind in ("table_len", "sum_out_table", "two_tables"):
            notations = ["table"] * m
        if kind in ("default_len", "sum_out_default", "two_defaults"):
            notations = [("default+table" if True else None)] * m
        if notations is not None:
            notations = [nt if nt is not None else rng.choice(["table", "default"]) for nt in notations]
        ast, _used = make_ast(rng, net, notations)
        ok = _apply(rng, kind, ast, net, info)
        if not ok:
            continue
        text = render(rng, ast)
        if kind.startswith("text_"):
            text = _text_mutation(rng, kind, text, info)
            if text is None:
                continue
        return ast, text, info, net
    raise RuntimeError("could not build malformed case " + kind)


def _apply(rng, kind, ast, net, info):
    probs = ast["probs"]
    if kind == "missing_row":
        c = [pb for pb in probs if pb["parents"] and not _has(pb, "default") and not _has(pb, "table")
             and sum(1 for it in pb["items"] if it[0] == "entry") >= 1]
        if not c:
            return False
        pb = rng.choice(c)
        es = [i for i, it in enumerate(pb["items"]) if it[0] == "entry"]
        del pb["items"][rng.choice(es)]
        return True
    if kind == "table_len":
        pb = rng.choice(_blocks_with(ast, lambda p: _has(p, "table")))
        it = next(x for x in pb["items"] if x[0] == "table")
        if rng.random() < 0.5 and len(it[1]) > 1:
            it[1].pop(rng.randrange(len(it[1])))
        else:
            it[1].insert(rng.randrange(len(it[1]) + 1), "0.0")
        return True
    if kind in ("entry_probs_len", "entry_cond_len", "sum_out_entry", "dup_entry", "bad_cond_value",
                "cond_order_swapped"):
        c = _blocks_with(ast, lambda p: _has(p, "entry"))
        if not c:
            return False
        pb = rng.choice(c)
        es = [it for it in pb["items"] if it[0] == "entry"]
        it = rng.choice(es)
        if kind == "entry_probs_len":
            if rng.random() < 0.5 and len(it[2]) > 1:
                it[2].pop()
            else:
                it[2].append("0.0")
        elif kind == "entry_cond_len":
            if rng.random() < 0.5 and len(it[1]) > 1:
                it[1].pop()
            else:
                it[1].append(it[1][-1])
        elif kind == "sum_out_entry":
            _bump(rng, it[2])
        elif kind == "dup_entry":
            dup = ["entry", list(it[1]), list(it[2])]
            pb["items"].insert(rng.randrange(len(pb["items"]) + 1), dup)
        elif kind == "bad_cond_value":
            j = rng.randrange(len(it[1]))
            it[1][j] = rng.choice(["zz", "nope", it[1][j] + "x", it[1][j].upper() + "_"])
        elif kind == "cond_order_swapped":
            # the same entries with the condition tuple reversed: accepted iff it still denotes rows
            if len(it[1]) < 2:
                return False
            for e in es:
                e[1].reverse()
            info["maybe_accepted"] = True
        return True
    if kind in ("default_len", "sum_out_default", "two_defaults"):
        c = _blocks_with(ast, lambda p: _has(p, "default"))
        if not c:
            return False
        pb = rng.choice(c)
        it = next(x for x in pb["items"] if x[0] == "default")
        if kind == "default_len":
            if rng.random() < 0.5 and len(it[1]) > 1:
                it[1].pop()
            else:
                it[1].append("0.0")
        elif kind == "sum_out_default":
            _bump(rng, it[1])
        else:
            pb["items"].append(["default", list(it[1])])
        return True
    if kind == "sum_out_table":
        pb = rng.choice(_blocks_with(ast, lambda p: _has(p, "table")))
        it = next(x for x in pb["items"] if x[0] == "table")
        _bump(rng, it[1])
        return True
    if kind == "two_tables":
        pb = rng.choice(_blocks_with(ast, lambda p: _has(p, "table")))
        it = next(x for x in pb["items"] if x[0] == "table")
        pb["items"].append(["table", list(it[1])])
        return True
    if kind == "undefined_parent":
        c = _blocks_with(ast, lambda p: p["parents"])
        if not c:
            return False
        pb = rng.choice(c)
        pb["parents"][rng.randrange(len(pb["parents"]))] = "Ghost"
        return True
    if kind == "undefined_var":
        rng.choice(probs)["var"] = "Ghost"
        return True
    if kind == "no_cpt":
        j = rng.randrange(len(probs))
        ast["order"] = [o for o in ast["order"] if o != ["prob", j]]
        ast["dropped_probs"] = [j]
        return True
    if kind == "two_cpts":
        j = rng.randrange(len(probs))
        ast["order"].insert(rng.randrange(len(ast["order"]) + 1), ["prob", j])
        return True
    if kind == "dup_var":
        i = rng.randrange(len(ast["vars"]))
        ast["order"].insert(rng.randrange(len(ast["order"]) + 1), ["var", i])
        return True
    if kind == "dom_dup":
        c = [v for v in ast["vars"] if len(v["types"][0][1]) >= 2]
        if not c:
            return False
        v = rng.choice(c)
        v["types"][0][1][-1] = v["types"][0][1][0]
        return True
    if kind == "size_mismatch":
        v = rng.choice(ast["vars"])
        v["types"][0][0] += rng.choice([1, -1]) if v["types"][0][0] > 1 else 1
        return True
    if kind == "two_types":
        v = rng.choice(ast["vars"])
        v["types"].append([v["types"][0][0], list(v["types"][0][1])])
        return True
    if kind == "no_type":
        v = rng.choice(ast["vars"])
        v["types"] = []
        return True
    if kind in ("dup_parent", "cycle"):
        info["maybe_accepted"] = True
        return True
    if kind == "prob_property":
        # a property line inside a probability block: allowed by bif-syntax.lark; a well-formed file that must
        # be accepted with the same network (before /repo c2e32f2 __add_cpt__ ran into `assert False`)
        pb = rng.choice(probs)
        pb["items"].insert(rng.randrange(len(pb["items"]) + 1), ["property", "note some text, with commas"])
        info["well_formed_bif"] = True
        return True
    if kind.startswith("text_"):
        return True
    raise ValueError(kind)


def _text_mutation(rng, kind, text, info):
    import re
    info["expect_accept"] = False
    if kind == "text_int_literal":
        m = list(re.finditer(r"(?<![\w.])1\.0(?![\w.])", text))
        if not m:
            return None
        x = rng.choice(m)
        return text[:x.start()] + "1" + text[x.end():]
    if kind == "text_missing_semicolon":
        idx = [i for i, ch in enumerate(text) if ch == ";"]
        i = rng.choice(idx)
        nxt = text[i + 1:].lstrip()
        if nxt.startswith("}"):
            pass
        return text[:i] + text[i + 1:]
    if kind == "text_unknown_block":
        return text + "frobnicate x { }\n"
    if kind == "text_empty_domain":
        return re.sub(r"type discrete \[ \d+ \] \{[^}]*\}", "type discrete [ 0 ] { }", text, count=1)
    raise ValueError(kind)


def effective_ast(ast):
    """the AST the transformer sees: blocks in text order (duplicates included), properties dropped"""
    vs, ps = [], []
    for kind, i in ast["order"]:
        if kind == "var":
            v = ast["vars"][i]
            vs.append({"name": v["name"], "types": [[n, list(d)] for n, d in v["types"]]})
        else:
            pb = ast["probs"][i]
            ps.append({"var": pb["var"], "parents": list(pb["parents"]),
                       "items": [it for it in pb["items"] if it[0] != "property"]})
    return {"vars": vs, "probs": ps}


# ---------------------------------------------------------------- queries
def simple(s):
    return all(ch in SIMPLE for ch in s) and "**" not in s


def draw_queries(rng, net, n_exact=1, n_sample=1, positive_only=False):
    """query specs with the structured form next to the string; only over names/values that the
    query syntax (split on '|', ',', '=', '**') can express"""
    m = len(net.names)
    ok_vars = [v for v in range(m) if simple(net.names[v]) and all(simple(x) for x in net.domains[v])]
    out = []
    if not ok_vars:
        return out

    def evidence(kmax):
        k = rng.randint(1, min(kmax, len(ok_vars)))
        vs = rng.sample(ok_vars, k)
        return [(v, rng.randrange(len(net.domains[v]))) for v in vs]

    for _ in range(n_exact):
        t = rng.choice(ok_vars)
        ev = evidence(2)
        k = rng.choice([1, 1, 2, 3])
        evs = rng.choice([", ", ",", " , "]).join(
            f"{net.names[v]}{rng.choice([' = ', '=', ' ='])}{net.domains[v][x]}" for v, x in ev)
        tq = net.names[t] if k == 1 and rng.random() < 0.7 else f"{net.names[t]}**{k}"
        out.append({"type": "exact", "q": f"{tq} | {evs}", "target": t, "power": k, "evidence": ev})
    for _ in range(n_sample):
        ev = evidence(2)
        evs = rng.choice([", ", ","]).join(f"{net.names[v]} = {net.domains[v][x]}" for v, x in ev)
        out.append({"type": "sample", "q": evs, "evidence": ev})
    return out


# ---------------------------------------------------------------- oracle (independent of Polar)
def row_law(row):
    """law denoted by the generated choice: listed probabilities, last one implicit"""
    head = list(row[:-1])
    return head + [1 - sum(head, Fraction(0))]


def joint(net):
    """list of (assignment tuple, probability) by enumeration of the product formula"""
    m = len(net.names)
    res = []
    for a in product(*[range(len(d)) for d in net.domains]):
        p = Fraction(1)
        for v in range(m):
            key = tuple(a[u] for u in net.parents[v])
            p *= row_law(net.cpt[v][key])[a[v]]
        res.append((a, p))
    return res


def valid_case(rng, max_vars=6, small=False, names=None):
    net = build_net(rng, max_vars=max_vars, small=small, names=names)
    ast, used = make_ast(rng, net)
    text = render(rng, ast)
    return ast, text, {"notations": used}, net
