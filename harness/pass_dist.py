"""C02 / DistTransformer: correspondence between the Gallina model PassDist.dt_prog (proved:
props/C02_DistTransformer.v) and the real pass.

Input = Polar's snapshot after LoopGuardTransformer (a statement TREE), output = the snapshot
after DistTransformer.  The fresh names Polar took from its global counter are read off the
output (variables of the form _u<k> assigned there and not in the input, in program order)
and given to the model as its supply of names; inside Coq (vm_compute) the model's output is
compared with Polar's (PassCNMatch.dist_matches: statement trees, polynomials up to normal
form, the supply consumed exactly) and the theorem's hypothesis fresh_ok is evaluated.
The generator of c02 has no continuous draws with variable parameters, so seeded probes
(every rewriting rule, nesting, the unchanged cases, the cases outside the model) are run
through the real Polar here."""
import json
import re
import time

import lib
import core
import progast as P
from pass_constants import snapshot_pair, ensure_built, shared_polar_runs

HEADER = ("From Coq Require Import List String QArith Qcanon ZArith.\n"
          "From Polar Require Import Qcx Dist Syntax Sem Types Poly PassCNBase PassConstants PassCondNorm PassDist PassCNMatch.\n"
          "Import ListNotations.\nOpen Scope string_scope.\n")
PER_FILE = 8

PROBES = [
    "x = 0\ny = 1\nwhile true:\n    x = Uniform(y, y + 2)\n    if x > 1:\n        y = Normal(x, 4)\n    else:\n        y = Laplace(x, 1)\n    end\nend\n",
    "x = 0\nwhile true:\n    x = Normal(x, 1)\nend\n",
    "x = 0\ny = 0\nwhile true:\n    y = Normal(2*x + 1, 9/4)\n    x = Uniform(0, 1)\nend\n",
    "x = 1\nwhile true:\n    x = Uniform(x, 2*x)\nend\n",
    "x = 0\nwhile true:\n    x = Laplace(x + p, 2)\nend\n",
    "x = 0\ny = 0\nwhile true:\n    x = Normal(0, 1)\n    y = Exponential(2)\n    x = Uniform(1, 3)\n    y = Laplace(0, 1)\nend\n",
    "a = Normal(p, 1)\nx = 0\nwhile x < 3:\n    if x == 0:\n        if a > 0:\n            x = Uniform(a, a + 1)\n        end\n    elif x == 1:\n        x = Laplace(a, 1/2)\n    else:\n        x = Normal(a*a, 1/4)\n    end\nend\n",
    "x = 0\nwhile true:\n    x = Normal(x, 2)\nend\n",
    "x = 1\ny = 0\nwhile true:\n    y = Normal(0, x)\nend\n",
    "x = 1\ny = 0\nwhile true:\n    y = Exponential(1/x)\nend\n",
    "x = 0\ny = 0\nwhile true:\n    x = Bernoulli(1/2)\n    y = Gamma(2, 1)\n    y = Beta(1, 2)\nend\n",
    # bounds / location that are sums or differences (the rewriting a + (b - a)*U is built from the printed bounds)
    "x = 0\ny = 0\nwhile true:\n    x = x + 1 {1/2} x - 1\n    y = Uniform(x - 1, x + 2)\nend\n",
    "x = 0\ny = 0\nwhile true:\n    x = x + 1 {1/2} x - 1\n    y = Uniform(1 - x, x + 1)\nend\n",
    "x = 0\ny = 0\nz = 1\nwhile true:\n    x = x + 1 {1/2} x\n    y = Normal(x - z - 1, 4)\n    z = Laplace(-x - 2, 1)\nend\n",
]


def assigned_in_order(stmts, acc):
    for s in stmts:
        if "if" in s:
            for _, b in s["if"]:
                assigned_in_order(b, acc)
            if s.get("else"):
                assigned_in_order(s["else"], acc)
        else:
            acc.append(s["var"])
    return acc


def fresh_names(a, b):
    before = set(assigned_in_order(a["init"], []) + assigned_in_order(a["body"], []))
    names = []
    for v in assigned_in_order(b["init"], []) + assigned_in_order(b["body"], []):
        if v not in before and re.fullmatch(r"_u\d+", v) and v not in names:
            names.append(v)
    return names


def count_cont(stmts):
    n = 0
    for s in stmts:
        if "if" in s:
            for _, b in s["if"]:
                n += count_cont(b)
            if s.get("else"):
                n += count_cont(s["else"])
        elif s["rhs"][0] == "draw" and s["rhs"][1][0] == "cont":
            n += 1
    return n


def run_pass(ctx, runs):
    t0 = time.time()
    ok, log = ensure_built("theories/PassCNMatch.vo", ["theories/PassConstants.vo", "theories/PassCondNorm.vo", "theories/PassDist.vo"])
    cov = ctx.coverage.setdefault("pass_models", {})
    st = {"instances": 0, "in_model": 0, "model_equals_polar": 0, "hypothesis_fresh_ok": 0, "hypothesis_false": 0,
          "draws_rewritten": 0, "programs_with_rewriting": 0, "outside_model": 0, "not_modelled_dump": 0, "seeded_probes": 0,
          "refused_by_polar": 0}
    cov["DistTransformer"] = st
    if not ok:
        ctx.violation("pass-model:DistTransformer:build", {"log": log[-2000:]}, "theories/PassCNMatch.v / PassDist.v do not build", no_input=True)
        return
    probes = shared_polar_runs()["dist"]
    st["seeded_probes"] = len(probes)
    for r in probes:
        names = [n for n, _ in r["snapshots"]]
        if "LoopGuardTransformer" in names and "DistTransformer" not in names:
            st["refused_by_polar"] += 1     # TransformException etc.: a refusal, not a result
    cases, seen = [], set()
    for run in list(runs) + probes:
        pair = snapshot_pair(run, "LoopGuardTransformer", "DistTransformer")
        if pair is None:
            continue
        if pair == "unsupported":
            st["not_modelled_dump"] += 1
            continue
        a, b = pair
        key = json.dumps([a["init"], a["body"], a["guard"], b["init"], b["body"]], sort_keys=True)
        if key in seen:
            continue
        seen.add(key)
        try:
            pin, pout = core.prog_from_dump(a), core.prog_from_dump(b)
            names = fresh_names(a, b)
            cases.append({"text": run["text"], "opts": run["opts"], "pin": P.prog_coq(pin), "pout": P.prog_coq(pout),
                          "names": P.lst(['"%s"' % n for n in names]), "n_names": len(names),
                          "n_cont": count_cont(a["init"]) + count_cont(a["body"])})
        except (core.NotModelled, KeyError, ValueError):
            st["not_modelled_dump"] += 1
    files = []
    for j in range(0, len(cases), PER_FILE):
        body = HEADER
        for k, c in enumerate(cases[j:j + PER_FILE]):
            body += (f"Definition pin{k} : prog := {c['pin']}.\nDefinition pout{k} : prog := {c['pout']}.\n"
                     f"Eval vm_compute in [dist_in_model {c['names']} pin{k}; dist_matches {c['names']} pin{k} pout{k}; "
                     f"fresh_ok {c['names']} pin{k}].\n")
        files.append((f"pdist_{j // PER_FILE}", body))
    outs = lib.coq_run_many(ctx, files, timeout=300)
    for j in range(0, len(cases), PER_FILE):
        okc, o = outs[f"pdist_{j // PER_FILE}"]
        lists = re.findall(r"=\s*\[(.*?)\]\s*:\s*list bool", o, re.S) if okc else []
        chunk = cases[j:j + PER_FILE]
        if len(lists) != len(chunk):
            ctx.violation(f"pass-model:DistTransformer:coq:{chunk[0]['text']}", {"output": o[-2000:], "programs": [c["text"] for c in chunk]},
                          "the DistTransformer model could not be evaluated inside Coq on Polar's snapshots", no_input=True)
            continue
        for c, l in zip(chunk, lists):
            in_model, matches, fresh = [x.strip() == "true" for x in l.split(";")]
            st["instances"] += 1
            if not in_model:
                st["outside_model"] += 1
                continue
            st["in_model"] += 1
            ctx.coverage["obligations"] += 1
            ctx.count({"pass": "DistTransformer", "t": c["text"]}, nontrivial=c["n_names"] > 0)
            st["draws_rewritten"] += c["n_names"]
            st["programs_with_rewriting"] += 1 if c["n_names"] else 0
            if fresh:
                st["hypothesis_fresh_ok"] += 1
            else:
                st["hypothesis_false"] += 1
            if matches:
                st["model_equals_polar"] += 1
                ctx.coverage["discharged"] += 1
            else:
                okm, om = lib.coq_run(ctx, "pdist_show", HEADER + f"Eval vm_compute in (dt_prog {c['names']} {c['pin']}).\n", timeout=120)
                ctx.violation(f"pass-model:DistTransformer:{c['text']}",
                              {"program_text": c["text"], "options": c["opts"], "fresh_names_read_from_output": c["names"],
                               "correspondence": "PassDist.dt_prog vs DistTransformer.execute",
                               "polar_input": c["pin"], "polar_output": c["pout"], "model_output": om[-4000:] if okm else None,
                               "theorem": "props/C02_DistTransformer.v: C02_dist_pass_preserves is about the model, which no longer describes the code"},
                              "the model of DistTransformer (PassDist.dt_prog) and the real pass produce different programs for\n" + c["text"],
                              no_input=True)
    print(f"  [pass DistTransformer] instances={st['instances']} in_model={st['in_model']} model==polar={st['model_equals_polar']} "
          f"fresh_ok={st['hypothesis_fresh_ok']} draws_rewritten={st['draws_rewritten']} outside_model={st['outside_model']} "
          f"unsupported_dump={st['not_modelled_dump']} wall={time.time() - t0:.1f}s", flush=True)
    ctx.coverage["trusted_base"] += ["harness/pass_dist.py + harness/core.py: conversion of Polar's tree snapshots to Syntax.prog, fresh names read "
                                     "off Polar's output (the comparison, PassCNMatch.dist_matches, runs inside Coq)"]
    ctx.assumptions += ["DistTransformer: C02_dist_pass_preserves is a law-level theorem parametric in the law of the continuous families under "
                        "the location-scale equations of Normal/Uniform/Laplace (hypotheses of the theorem, shown consistent; C08 is about the "
                        "moment formulas); variable or non-square variance of Normal and Exponential(c/e) are outside the model and not "
                        "covered by any theorem (continuous draws are also outside c02's finite joint-law oracle)"]
