"""Worker tasks of the C02 pass models (pass_multiassign.py / pass_condreduce.py).

capture_probe: the theorems about MultiAssignTransformer and ConditionsReducer need the
hypothesis that no variable of the program has the name of a variable the pass generates
(`_<x><i>`, `_r<k>`).  This task runs the REAL normalisation on a program whose user variable
carries exactly the name the pass is going to generate (computed from the current value of
the global counter utils.identifiers._count_unique_var of this worker process) and returns
the per-pass snapshots."""
import tasks_core

MA_TEXT = """{v} = 7
x = 0
while true:
    x = 1
    x = x + {v}
end
"""

CR_TEXT = """{v} = 1
x = 0
y = 0
while true:
    y = Bernoulli(1/2)
    if {v}*y > x*{v}:
        x = 1
    end
end
"""


def task_capture_probe(task):
    from utils import identifiers
    c = getattr(identifiers, "_count_unique_var", 0)
    if task["which"] == "ma":
        v = "_x1"
        text = MA_TEXT.format(v=v)
    else:
        # IfTransformer takes _old<c> for the copy of x, ConditionsReducer then _r<c+1>
        v = f"_r{c + 1}"
        text = CR_TEXT.format(v=v)
    res = tasks_core.task_analyze({"text": text, "goals": [], "solve": False, "snapshots": True, "opts": {}})
    res["text"] = text
    res["captured"] = v
    return res
