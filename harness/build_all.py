"""setup: regenerate gen/ (translators), _CoqProject, and build every .vo (keep going on errors)."""
import os, sys, glob, importlib
sys.path.insert(0, os.path.dirname(os.path.abspath(__file__)))
import lib
for t in sorted(glob.glob(os.path.join(lib.VERIF, "harness", "translate*.py"))):
    name = os.path.basename(t)[:-3]
    try:
        m = importlib.import_module(name)
        if hasattr(m, "main"):
            m.main()
    except Exception as e:  # noqa
        print("translator", name, "failed:", e)
ok, log = lib.coq_make([], timeout=3000, keep_going=True)
print("\n".join(l for l in log.splitlines() if "Error" in l or "error" in l or l.startswith("File"))[-3000:])
print("build ok" if ok else "build had errors")
