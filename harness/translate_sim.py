"""C12 translator T: Python `ast` -> Gallina sampler descriptors.

Reads  <repo>/program/distribution/<family>.py : sample  and  get_support  from the working
tree (lib.REPO) on every `./check C12` and writes coq/gen/SimSamplers.v (PolarGen.SimSamplers):
one `<family>_sample : sdesc` and one `<family>_support : list sitem` per family, in the
vocabulary of theories/SimulatorSamplerBase.v.  theories/SimulatorSamplers.v proves its
theorems ABOUT these generated definitions, so editing a sample method changes the Coq term
and breaks the proof.  Fail-closed: a construct outside the subset below raises Unsupported.

Subset of `sample`:
  x = [sympify(] self.<attr>.subs(state) [)] [.simplify()]      local x  := parameter <attr>
  x = e                                                          local x  := expression e (inlined)
  L = []; for v in self.<attr>: p = v.subs(state); if..: raise..; L.append(float(p))
                                                              local L  := list parameter <attr>
  if <anything>: raise ...                                       ignored (parameter validation)
  return [e *] <fam>.rvs(<shape exprs>, loc=e, scale=e)        <fam> imported from scipy.stats
  return random.choices(range(len(L)), weights=L, k=1)[0]
  return random.choice(self.<attr>)
  expressions e: float(e) | local | int literal | e+e | e-e | e*e | e/e | math.sqrt(e)
Subset of `get_support`: return {items}; item = (lo, hi) | value; value = Zero() | One() | int |
  self.<attr> | oo | -oo | -value;  or  {sympify(v) for v in range(len(self.<attr>))}  or  set(self.<attr>)."""
import ast
import os
import sys

sys.path.insert(0, os.path.dirname(os.path.abspath(__file__)))
import lib  # noqa: E402

FAMILIES = [
    ("Bernoulli", "bernoulli.py", "bernoulli"),
    ("Categorical", "categorical.py", "categorical"),
    ("DiscreteUniform", "discrete_uniform.py", "discreteuniform"),
    ("Uniform", "uniform.py", "uniform"),
    ("Exponential", "exponential.py", "exponential"),
    ("Gamma", "gamma.py", "gamma"),
    ("Beta", "beta.py", "beta"),
    ("Normal", "normal.py", "normal"),
    ("Laplace", "laplace.py", "laplace"),
    ("TruncNormal", "truncated_normal.py", "truncnormal"),
]


class Unsupported(Exception):
    def __init__(self, file, node, why):
        self.file = file
        self.line = getattr(node, "lineno", 0) if node is not None else 0
        self.why = why
        super().__init__(f"{file}:{self.line}: {why}")


def _is_self_attr(n):
    return isinstance(n, ast.Attribute) and isinstance(n.value, ast.Name) and n.value.id == "self"


def _param_source(n):
    """[sympify(] self.<attr>.subs(state) [)] [.simplify()]  ->  attr or None"""
    if isinstance(n, ast.Call) and isinstance(n.func, ast.Attribute) and n.func.attr == "simplify" and not n.args:
        return _param_source(n.func.value)
    if isinstance(n, ast.Call) and isinstance(n.func, ast.Name) and n.func.id == "sympify" and len(n.args) == 1:
        return _param_source(n.args[0])
    if (isinstance(n, ast.Call) and isinstance(n.func, ast.Attribute) and n.func.attr == "subs"
            and len(n.args) == 1 and isinstance(n.args[0], ast.Name) and n.args[0].id == "state"
            and _is_self_attr(n.func.value)):
        return n.func.value.attr
    return None


class FamilyReader:
    def __init__(self, cls, fn, path):
        self.cls, self.fn, self.path = cls, fn, path
        with open(path) as f:
            self.tree = ast.parse(f.read())
        self.scipy = set()
        self.has_random = False
        self.has_math = False
        for n in self.tree.body:
            if isinstance(n, ast.ImportFrom) and n.module == "scipy.stats":
                self.scipy |= {a.asname or a.name for a in n.names}
            if isinstance(n, ast.Import):
                for a in n.names:
                    if a.name == "random" and a.asname is None:
                        self.has_random = True
                    if a.name == "math" and a.asname is None:
                        self.has_math = True
        self.klass = None
        for n in self.tree.body:
            if isinstance(n, ast.ClassDef) and n.name == cls:
                self.klass = n
        if self.klass is None:
            raise Unsupported(fn, None, f"class {cls} not found")

    def method(self, name):
        for n in self.klass.body:
            if isinstance(n, ast.FunctionDef) and n.name == name:
                return n
        raise Unsupported(self.fn, self.klass, f"method {name} not found")

    # ---- sample ----
    def expr(self, n, env):
        if isinstance(n, ast.Call) and isinstance(n.func, ast.Name) and n.func.id == "float" and len(n.args) == 1:
            return self.expr(n.args[0], env)
        if isinstance(n, ast.Name):
            if n.id in env and env[n.id][0] == "param":
                return ("param", env[n.id][1])
            if n.id in env and env[n.id][0] == "expr":
                return env[n.id][1]
            raise Unsupported(self.fn, n, f"unknown local {n.id}")
        if isinstance(n, ast.Constant) and isinstance(n.value, int) and not isinstance(n.value, bool):
            return ("const", n.value)
        if isinstance(n, ast.BinOp):
            ops = {ast.Add: "add", ast.Sub: "sub", ast.Mult: "mul", ast.Div: "div"}
            if type(n.op) in ops:
                return (ops[type(n.op)], self.expr(n.left, env), self.expr(n.right, env))
        if (isinstance(n, ast.Call) and isinstance(n.func, ast.Attribute) and n.func.attr == "sqrt"
                and isinstance(n.func.value, ast.Name) and n.func.value.id == "math" and self.has_math and len(n.args) == 1):
            return ("sqrt", self.expr(n.args[0], env))
        raise Unsupported(self.fn, n, "expression outside the subset: " + ast.dump(n)[:120])

    def list_loop(self, st, env):
        """for v in self.<attr>: p = v.subs(state); [if ..: raise ..]; L.append(float(p))"""
        if not (isinstance(st.target, ast.Name) and _is_self_attr(st.iter) and not st.orelse):
            raise Unsupported(self.fn, st, "for loop outside the subset")
        v = st.target.id
        loc = {}
        target = None
        for b in st.body:
            if (isinstance(b, ast.Assign) and len(b.targets) == 1 and isinstance(b.targets[0], ast.Name)
                    and isinstance(b.value, ast.Call) and isinstance(b.value.func, ast.Attribute)
                    and b.value.func.attr == "subs" and isinstance(b.value.func.value, ast.Name)
                    and b.value.func.value.id == v and len(b.value.args) == 1
                    and isinstance(b.value.args[0], ast.Name) and b.value.args[0].id == "state"):
                loc[b.targets[0].id] = True
            elif isinstance(b, ast.If) and len(b.body) == 1 and isinstance(b.body[0], ast.Raise) and not b.orelse:
                continue
            elif (isinstance(b, ast.Expr) and isinstance(b.value, ast.Call) and isinstance(b.value.func, ast.Attribute)
                  and b.value.func.attr == "append" and isinstance(b.value.func.value, ast.Name)
                  and len(b.value.args) == 1):
                a = b.value.args[0]
                if (isinstance(a, ast.Call) and isinstance(a.func, ast.Name) and a.func.id == "float"
                        and isinstance(a.args[0], ast.Name) and a.args[0].id in loc):
                    target = b.value.func.value.id
                else:
                    raise Unsupported(self.fn, b, "append argument outside the subset")
            else:
                raise Unsupported(self.fn, b, "loop body statement outside the subset")
        if target is None or env.get(target) != ("emptylist",):
            raise Unsupported(self.fn, st, "loop does not fill a fresh list")
        env[target] = ("listparam", st.iter.attr)

    def sample(self):
        fd = self.method("sample")
        env = {}
        ret = None
        for st in fd.body:
            if ret is not None:
                raise Unsupported(self.fn, st, "statement after return")
            if isinstance(st, ast.Assign) and len(st.targets) == 1 and isinstance(st.targets[0], ast.Name):
                src = _param_source(st.value)
                if src is not None:
                    env[st.targets[0].id] = ("param", src)
                elif isinstance(st.value, ast.List) and not st.value.elts:
                    env[st.targets[0].id] = ("emptylist",)
                else:
                    env[st.targets[0].id] = ("expr", self.expr(st.value, env))      # x = <expression of the subset>
            elif isinstance(st, ast.For):
                self.list_loop(st, env)
            elif isinstance(st, ast.If) and all(isinstance(b, ast.Raise) for b in st.body) and not st.orelse:
                continue
            elif isinstance(st, ast.Return):
                ret = self.sample_return(st.value, env)
            elif isinstance(st, ast.Expr) and isinstance(st.value, ast.Constant):
                continue
            else:
                raise Unsupported(self.fn, st, "statement outside the subset")
        if ret is None:
            raise Unsupported(self.fn, fd, "no return")
        return ret

    def sample_return(self, n, env):
        post = None
        if isinstance(n, ast.BinOp) and isinstance(n.op, ast.Mult):
            post = self.expr(n.left, env)
            n = n.right
        # <fam>.rvs(...)
        if (isinstance(n, ast.Call) and isinstance(n.func, ast.Attribute) and n.func.attr == "rvs"
                and isinstance(n.func.value, ast.Name) and n.func.value.id in self.scipy):
            shape = [self.expr(a, env) for a in n.args]
            kw = {}
            for k in n.keywords:
                if k.arg not in ("loc", "scale"):
                    raise Unsupported(self.fn, n, f"rvs keyword {k.arg}")
                kw[k.arg] = self.expr(k.value, env)
            return ("scipy", n.func.value.id, shape, kw.get("loc"), kw.get("scale"), post)
        if post is not None:
            raise Unsupported(self.fn, n, "scaled non-scipy sampler")
        # random.choices(range(len(L)), weights=L, k=1)[0]
        if (isinstance(n, ast.Subscript) and isinstance(n.slice, ast.Constant) and n.slice.value == 0
                and isinstance(n.value, ast.Call) and isinstance(n.value.func, ast.Attribute)
                and n.value.func.attr == "choices" and isinstance(n.value.func.value, ast.Name)
                and n.value.func.value.id == "random" and self.has_random):
            c = n.value
            kws = {k.arg: k.value for k in c.keywords}
            if (len(c.args) == 1 and set(kws) == {"weights", "k"} and isinstance(kws["k"], ast.Constant) and kws["k"].value == 1
                    and isinstance(kws["weights"], ast.Name) and env.get(kws["weights"].id, ("",))[0] == "listparam"):
                L = kws["weights"].id
                pop = c.args[0]
                if (isinstance(pop, ast.Call) and isinstance(pop.func, ast.Name) and pop.func.id == "range" and len(pop.args) == 1
                        and isinstance(pop.args[0], ast.Call) and isinstance(pop.args[0].func, ast.Name)
                        and pop.args[0].func.id == "len" and isinstance(pop.args[0].args[0], ast.Name)
                        and pop.args[0].args[0].id == L):
                    return ("choices_range", env[L][1])
            raise Unsupported(self.fn, n, "random.choices call outside the subset")
        # random.choice(self.<attr>)
        if (isinstance(n, ast.Call) and isinstance(n.func, ast.Attribute) and n.func.attr == "choice"
                and isinstance(n.func.value, ast.Name) and n.func.value.id == "random" and self.has_random
                and len(n.args) == 1 and not n.keywords and _is_self_attr(n.args[0])):
            return ("choice", n.args[0].attr)
        raise Unsupported(self.fn, n, "return outside the subset: " + ast.dump(n)[:160])

    # ---- get_support ----
    def sval(self, n):
        if isinstance(n, ast.Call) and isinstance(n.func, ast.Name) and not n.args and n.func.id in ("Zero", "One"):
            return ("fin", ("const", 0 if n.func.id == "Zero" else 1))
        if isinstance(n, ast.Name) and n.id in ("zero", "one"):
            return ("fin", ("const", 0 if n.id == "zero" else 1))
        if isinstance(n, ast.Constant) and isinstance(n.value, int) and not isinstance(n.value, bool):
            return ("fin", ("const", n.value))
        if isinstance(n, ast.Name) and n.id == "oo":
            return ("posinf",)
        if _is_self_attr(n):
            return ("fin", ("param", n.attr))
        if isinstance(n, ast.UnaryOp) and isinstance(n.op, ast.USub):
            v = self.sval(n.operand)
            if v == ("posinf",):
                return ("neginf",)
            if v[0] == "fin":
                return ("fin", ("sub", ("const", 0), v[1]))
        raise Unsupported(self.fn, n, "support value outside the subset: " + ast.dump(n)[:120])

    def support(self):
        fd = self.method("get_support")
        body = [s for s in fd.body if not (isinstance(s, ast.Expr) and isinstance(s.value, ast.Constant))]
        if len(body) != 1 or not isinstance(body[0], ast.Return):
            raise Unsupported(self.fn, fd, "get_support is not a single return")
        n = body[0].value
        if isinstance(n, ast.Set):
            items = []
            for e in n.elts:
                if isinstance(e, ast.Tuple) and len(e.elts) == 2:
                    items.append(("interval", self.sval(e.elts[0]), self.sval(e.elts[1])))
                else:
                    v = self.sval(e)
                    if v[0] != "fin":
                        raise Unsupported(self.fn, e, "infinite point")
                    items.append(("point", v[1]))
            return items
        if (isinstance(n, ast.SetComp) and len(n.generators) == 1 and isinstance(n.elt, ast.Call)
                and isinstance(n.elt.func, ast.Name) and n.elt.func.id == "sympify"
                and isinstance(n.elt.args[0], ast.Name) and isinstance(n.generators[0].target, ast.Name)
                and n.elt.args[0].id == n.generators[0].target.id and not n.generators[0].ifs):
            it = n.generators[0].iter
            if (isinstance(it, ast.Call) and isinstance(it.func, ast.Name) and it.func.id == "range" and len(it.args) == 1
                    and isinstance(it.args[0], ast.Call) and isinstance(it.args[0].func, ast.Name)
                    and it.args[0].func.id == "len" and _is_self_attr(it.args[0].args[0])):
                return [("rangelen", it.args[0].args[0].attr)]
        if (isinstance(n, ast.Call) and isinstance(n.func, ast.Name) and n.func.id == "set" and len(n.args) == 1
                and _is_self_attr(n.args[0])):
            return [("values", n.args[0].attr)]
        raise Unsupported(self.fn, n, "get_support return outside the subset")


# ---- printers ----
def x_coq(e):
    k = e[0]
    if k == "param":
        return f'(XParam "{e[1]}")'
    if k == "const":
        return f"(XConst (mkq ({e[1]}) 1))"
    if k == "sqrt":
        return f"(XSqrt {x_coq(e[1])})"
    return "(X" + k.capitalize() + f" {x_coq(e[1])} {x_coq(e[2])})"


def o_coq(e):
    return "None" if e is None else f"(Some {x_coq(e)})"


def d_coq(d):
    if d[0] == "scipy":
        return (f'SScipy "{d[1]}" [' + "; ".join(x_coq(s) for s in d[2]) + f"] {o_coq(d[3])} {o_coq(d[4])} {o_coq(d[5])}")
    if d[0] == "choices_range":
        return f'SChoicesRange "{d[1]}"'
    return f'SChoice "{d[1]}"'


def b_coq(b):
    return {"posinf": "BPosInf", "neginf": "BNegInf"}.get(b[0]) or f"(BFin {x_coq(b[1])})"


def i_coq(it):
    if it[0] == "interval":
        return f"SInterval {b_coq(it[1])} {b_coq(it[2])}"
    if it[0] == "point":
        return f"SPoint {x_coq(it[1])}"
    if it[0] == "rangelen":
        return f'SRangeLen "{it[1]}"'
    return f'SValues "{it[1]}"'


def read_all(repo=None):
    """-> dict prefix -> {"class","file","sample","support"} or {"class","file","error"} (fail-closed per family:
    no definition is generated for a family whose methods leave the subset, so the theorems about it break)"""
    repo = repo or lib.REPO
    out = {}
    for cls, fn, prefix in FAMILIES:
        try:
            r = FamilyReader(cls, fn, os.path.join(repo, "program", "distribution", fn))
            out[prefix] = {"class": cls, "file": fn, "sample": r.sample(), "support": r.support()}
        except Unsupported as e:
            out[prefix] = {"class": cls, "file": fn, "error": str(e)}
        except (OSError, SyntaxError) as e:
            out[prefix] = {"class": cls, "file": fn, "error": f"{fn}: {type(e).__name__}: {e}"}
    return out


def render(desc):
    s = ("(* GENERATED by harness/translate_sim.py from program/distribution/*.py (sample, get_support) — do not edit *)\n"
         "From Coq Require Import List String QArith Qcanon.\nFrom Polar Require Import Qcx SimulatorSamplerBase.\n"
         "Import ListNotations.\nOpen Scope string_scope.\n\n")
    for _, _, prefix in FAMILIES:
        d = desc[prefix]
        if "error" in d:
            s += f"(* {d['class']}: NOT TRANSLATED: " + d["error"].replace("*", "x").replace("(", "[").replace(")", "]") + " *)\n\n"
            continue
        s += f"(* {d['class']}.sample / get_support  ({d['file']}) *)\n"
        s += f"Definition {prefix}_sample : sdesc := {d_coq(d['sample'])}.\n"
        s += f"Definition {prefix}_support : list sitem := [" + "; ".join(i_coq(i) for i in d["support"]) + "].\n\n"
    return s


def main(repo=None):
    desc = read_all(repo)
    lib.write_if_changed(os.path.join(lib.COQ, "gen", "SimSamplers.v"), render(desc))
    return desc


if __name__ == "__main__":
    print(render(read_all()))
