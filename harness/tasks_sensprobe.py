"""Worker task for C10's central-moment / cumulant probe: runs the real command line
`polar.py <file> --goals ... -sens_diff <p>` (or -sens) in a subprocess and returns its output."""
import os
import subprocess
import sys
import tempfile


def task_sens_cli_text(task):
    repo = [p for p in sys.path if os.path.exists(os.path.join(p, "polar.py"))][0]
    with tempfile.NamedTemporaryFile("w", suffix=".prob", delete=False) as f:
        f.write(task["text"])
        path = f.name
    try:
        cmd = [sys.executable, os.path.join(repo, "polar.py"), path, "--goals"] + list(task["goals"]) + [task["method"], task["param"]]
        r = subprocess.run(cmd, cwd=repo, stdout=subprocess.PIPE, stderr=subprocess.STDOUT, text=True, timeout=task.get("timeout", 120) - 5)
    finally:
        os.unlink(path)
    return {"returncode": r.returncode, "stdout": r.stdout[-6000:]}
