"""Confirm a seeded change and run checks against it, without touching /repo:
  seeded_eval.py <name> <patch.diff> <demo.py> <property> [<check ids, comma separated>] [--keep]
1. fresh worktree of /repo HEAD under /tmp; 2. demo must pass on it; 3. apply the patch;
4. demo must fail; 5. the existing test suite must pass as before; 6. run the checks with
POLAR_REPO pointing at the worktree; 7. store patch, demo, meta.json under /verif/seeded/<name>/;
8. remove the worktree."""
import json
import os
import re
import shutil
import subprocess
import sys
import time

VERIF = os.path.dirname(os.path.dirname(os.path.abspath(__file__)))


def sh(cmd, cwd=None, env=None, timeout=3600):
    r = subprocess.run(cmd, shell=True, cwd=cwd, env=env, stdout=subprocess.PIPE, stderr=subprocess.STDOUT, text=True, timeout=timeout)
    return r.returncode, r.stdout


def main():
    name, patch, demo, prop = sys.argv[1:5]
    checks = sys.argv[5].split(",") if len(sys.argv) > 5 and not sys.argv[5].startswith("--") else [prop]
    skip_tests = "--skip-tests" in sys.argv
    wt = f"/tmp/seedwt_{name}"
    sh(f"git -C /repo worktree remove --force {wt}")
    rc, out = sh(f"git -C /repo worktree add -q {wt} HEAD")
    meta = {"name": name, "property": prop, "checks_run": checks, "repo_head": sh("git -C /repo log --format=%h -1")[1].strip()}
    old = {}
    oldp = os.path.join(VERIF, "seeded", name, "meta.json")
    if os.path.exists(oldp):
        old = json.load(open(oldp))
    if skip_tests and "tests" in old:
        meta["tests"] = old["tests"]
    if old.get("checks"):
        meta["earlier_runs"] = old.get("earlier_runs", []) + [{"repo_head": old.get("repo_head"), "detected_by": old.get("detected_by"),
                                                              "checks": {c: {"exit": r["exit"], "violations": r["violations"]} for c, r in old["checks"].items()}}]
    try:
        shutil.copy(demo, os.path.join(wt, "seed_demo.py"))
        rc0, out0 = sh("timeout 600 /venv/bin/python seed_demo.py", cwd=wt)
        meta["demo_on_unchanged"] = {"exit": rc0, "tail": out0[-400:]}
        rc, out = sh(f"git apply {os.path.abspath(patch)}", cwd=wt)
        meta["patch_applies"] = rc == 0
        if rc != 0:
            meta["apply_error"] = out[-500:]
        rc1, out1 = sh("timeout 600 /venv/bin/python seed_demo.py", cwd=wt)
        meta["demo_on_changed"] = {"exit": rc1, "tail": out1[-600:]}
        if not skip_tests:
            t0 = time.time()
            rc, out = sh("timeout 2400 /venv/bin/python -m pytest -q -p no:cacheprovider --timeout=900 --continue-on-collection-errors 2>&1 | tail -8", cwd=wt)
            m = re.search(r"(\d+) passed", out)
            meta["tests"] = {"passed": int(m.group(1)) if m else None, "summary": out.strip().splitlines()[-1] if out.strip() else "",
                             "wall_s": round(time.time() - t0)}
        meta["confirmed"] = bool(rc0 == 0 and rc1 != 0 and meta["patch_applies"] and ((meta.get("tests", {}).get("passed") or 0) >= 134))
        os.remove(os.path.join(wt, "seed_demo.py"))
        res = {}
        env = dict(os.environ)
        env["POLAR_REPO"] = wt
        # run the checks from a private copy of /verif so that regenerated gen/*.v and rebuilt
        # .vo files cannot disturb checks running concurrently in /verif itself
        vc = f"/tmp/verifcopy_{name}"
        shutil.rmtree(vc, ignore_errors=True)
        sh(f"rsync -a --exclude .git --exclude replays --exclude seeded {VERIF}/ {vc}/")
        # files somebody is still writing (untracked, not ignored) do not belong to the machinery under evaluation
        for u in sh(f"git -C {VERIF} ls-files --others --exclude-standard")[1].splitlines():
            try:
                os.remove(os.path.join(vc, u.strip()))
            except OSError:
                pass
        for c in checks:
            t0 = time.time()
            rc, out = sh(f"./check {c} --tier quick", cwd=vc, env=env, timeout=3000)
            lines = [l for l in out.splitlines() if l.startswith("VIOLATION") or l.startswith("KNOWN-FINDING")]
            detail = [l for l in out.splitlines() if l.startswith("  ")][:3]
            res[c] = {"exit": rc, "violations": len([l for l in lines if l.startswith("VIOLATION")]),
                      "with_input": len([l for l in lines if l.startswith("VIOLATION") and "no-failing-input-found" not in l]),
                      "first": (lines + [""])[0][:300], "detail": detail, "wall_s": round(time.time() - t0)}
        meta["checks"] = res
        meta["detected_by"] = [c for c, r in res.items() if r["exit"] != 0]
    finally:
        sh(f"git -C /repo worktree remove --force {wt}")
        shutil.rmtree(wt, ignore_errors=True)
        shutil.rmtree(f"/tmp/verifcopy_{name}", ignore_errors=True)
    d = os.path.join(VERIF, "seeded", name)
    os.makedirs(d, exist_ok=True)
    if os.path.abspath(patch) != os.path.join(d, "patch.diff"):
        shutil.copy(patch, os.path.join(d, "patch.diff"))
    if os.path.abspath(demo) != os.path.join(d, "demo.py"):
        shutil.copy(demo, os.path.join(d, "demo.py"))
    md = os.path.splitext(patch)[0] + ".md"
    if os.path.exists(md):
        meta["needs"] = open(md).read()
    elif old.get("needs"):
        meta["needs"] = old["needs"]
    with open(os.path.join(d, "meta.json"), "w") as f:
        json.dump(meta, f, indent=1)
    print(json.dumps({k: meta[k] for k in ("name", "confirmed", "detected_by")}, indent=None))
    for c, r in meta.get("checks", {}).items():
        print(c, r["exit"], r["violations"], r["first"][:200])


main()
