"""Untrusted decomposition of sympy closed forms (in the integer symbol n) into
exponential-polynomial data  [(base, [c0, c1, ...])]  with numbers in Q or in a tower of
quadratic extensions Q(sqrt g1)...(sqrt gk), and printing of that data as Coq terms over
Polar.CRing.  The Coq validators re-evaluate everything, so a wrong decomposition can only
make them reject; it is additionally cross-checked numerically against the sympy expression."""
from fractions import Fraction

import sympy as sp


class Unsupported(Exception):
    pass


def exact(x):
    """exact simplification of a constant: NEVER sympy.nsimplify without rational=True (it
    identifies numbers numerically: 17/19 - 955/(133*20**8) would become 17/19)"""
    x = sp.sympify(x)
    if x.is_Rational:
        return x
    for f in (sp.expand, sp.simplify, lambda y: sp.radsimp(sp.simplify(y))):
        try:
            y = f(x)
        except Exception:
            continue
        if y.is_Rational:
            return y
    return sp.radsimp(sp.simplify(x))


def split_piecewise(expr, n):
    """Polar's  Piecewise((v0, n<=0), ..., (general, True)) -> (k, general) where k is the
    number of special cases (general claimed for n >= k)."""
    expr = sp.sympify(expr)
    if not isinstance(expr, sp.Piecewise):
        return 0, expr
    k = 0
    general = None
    for val, cond in expr.args:
        if cond == True:  # noqa: E712
            general = val
        else:
            for c1 in (cond.args if isinstance(cond, sp.Or) else [cond]):
                if not (isinstance(c1, sp.LessThan) and c1.lhs == n and c1.rhs.is_Integer):
                    raise Unsupported(f"piecewise condition {cond}")
                k = max(k, int(c1.rhs) + 1)
    if general is None:
        raise Unsupported("no general branch")
    if isinstance(general, sp.Piecewise):
        k2, general = split_piecewise(general, n)
        k = max(k, k2)
    return k, general


def eval_at(expr, n, k):
    v = sp.sympify(expr).subs(n, k)
    v = sp.simplify(v) if not v.is_Rational else v
    return v


def decompose(expr, n):
    """expr: sympy expression without Piecewise.  Returns list of (base, [coeffs low->high]),
    all sympy constants (no n)."""
    e = sp.expand(sp.powsimp(sp.expand(expr), force=True))
    e = sp.expand(sp.expand_power_exp(e))
    groups = {}
    for term in sp.Add.make_args(e):
        base = sp.Integer(1)
        coeff = sp.Integer(1)
        deg = 0
        for f in sp.Mul.make_args(term):
            if f.is_Pow and f.exp.has(n):
                ex = sp.expand(f.exp)
                a = ex.coeff(n, 1)
                c = ex.coeff(n, 0)
                if sp.simplify(ex - a * n - c) != 0 or a.has(n) or c.has(n) or f.base.has(n):
                    raise Unsupported(f"exponent {f.exp}")
                if not a.is_Integer:
                    raise Unsupported(f"non-integer exponent slope {a}")
                base = base * f.base ** a
                coeff = coeff * f.base ** c
            elif f == n:
                deg += 1
            elif f.is_Pow and f.base == n and f.exp.is_Integer and f.exp > 0:
                deg += int(f.exp)
            elif f.has(n):
                raise Unsupported(f"factor {f}")
            else:
                coeff = coeff * f
        base = exact(base)
        key = base
        lst = groups.setdefault(key, [])
        while len(lst) <= deg:
            lst.append(sp.Integer(0))
        lst[deg] = lst[deg] + coeff
    return [(b, [sp.radsimp(sp.simplify(c)) for c in cs]) for b, cs in groups.items()]


# ---- number fields: towers of quadratic extensions ---------------------------------
def _radicals(c, acc):
    c = sp.sympify(c)
    if c.has(sp.I):
        acc.add(-1)
    for a in c.atoms(sp.Pow):
        if a.exp.is_Rational and not a.exp.is_Integer:
            if a.exp.q != 2 or not a.base.is_Rational:
                raise Unsupported(f"radical {a}")
            r = sp.Rational(a.base)
            m = r.p * r.q
            if m < 0:
                acc.add(-1)
                m = -m
            for p in sp.factorint(m):
                acc.add(int(p))
    for a in c.atoms(sp.Symbol, sp.Function, sp.RootOf if hasattr(sp, "RootOf") else sp.Symbol):
        if isinstance(a, sp.Symbol) or isinstance(a, sp.Function):
            raise Unsupported(f"non-constant {a}")
    if c.atoms(sp.polys.rootoftools.ComplexRootOf):
        raise Unsupported("CRootOf")


def field_of(constants):
    gens = set()
    for c in constants:
        _radicals(c, gens)
    gens = sorted(gens)
    if len(gens) > 3:
        raise Unsupported(f"too many radicals {gens}")
    return gens


def to_field(c, gens):
    """constant -> nested pairs over Q(sqrt g1)...(sqrt gk); innermost are Fractions.
    element over gens[:k] = (A, B) meaning A + B*sqrt(gens[k-1]) with A, B over gens[:k-1]."""
    c = sp.sympify(c)
    if not gens:
        c = exact(c)
        if not c.is_Rational:
            c2 = sp.simplify(c)
            if not c2.is_Rational:
                raise Unsupported(f"not rational: {c}")
            c = c2
        return Fraction(int(c.p), int(c.q))
    syms = [sp.Symbol(f"_g{i}") for i in range(len(gens))]

    def repl(e):
        e = sp.radsimp(sp.expand(e))
        e = e.subs(sp.I, syms[gens.index(-1)]) if -1 in gens else e
        subs = {}
        for a in e.atoms(sp.Pow):
            if a.exp.is_Rational and not a.exp.is_Integer:
                r = sp.Rational(a.base)
                # a = r**(p/2) ; write sqrt(r) = sqrt(r.p*r.q)/r.q
                m = r.p * r.q
                coef = sp.Rational(1, r.q)
                prod = sp.Integer(1)
                if m < 0:
                    prod *= syms[gens.index(-1)]
                    m = -m
                for p, k in sp.factorint(m).items():
                    coef *= sp.Integer(p) ** (k // 2)
                    if k % 2:
                        prod *= syms[gens.index(int(p))]
                sq = coef * prod
                num = a.exp.p  # odd
                subs[a] = sq ** num if num > 0 else (1 / sq) ** (-num)
        return sp.expand(e.xreplace(subs))

    e = repl(c)
    # reduce denominators containing generators: multiply out using conjugates via sympy
    e = sp.together(e)
    num, den = sp.fraction(e)
    if den.free_symbols:
        raise Unsupported(f"generator in denominator: {c}")
    e = sp.expand(num / den)
    P = sp.Poly(e, *syms)
    table = {}
    for mon, co in P.terms():
        co = sp.Rational(co)
        red = []
        for g, k in zip(gens, mon):
            co = co * sp.Integer(g) ** (k // 2)
            red.append(k % 2)
        table[tuple(red)] = table.get(tuple(red), 0) + Fraction(int(co.p), int(co.q))

    def build(k, fixed):
        if k == 0:
            return table.get(tuple(fixed), Fraction(0))
        lo = list(fixed)
        hi = list(fixed)
        lo[k - 1] = 0
        hi[k - 1] = 1
        return (build(k - 1, lo), build(k - 1, hi))

    return build(len(gens), [0] * len(gens))


def field_to_complex(x, gens):
    import cmath
    if not gens:
        return complex(x)
    a, b = x
    return field_to_complex(a, gens[:-1]) + field_to_complex(b, gens[:-1]) * cmath.sqrt(gens[-1])


# ---- Coq printing -------------------------------------------------------------------
def coq_ring(gens):
    r = "Qc_cring"
    for i, g in enumerate(gens):
        r = f"(quad_cring {r} {coq_elem(embed(Fraction(g), i), gens[:i])})"
    return r


def embed(q, k):
    """rational q as element of the tower of height k"""
    x = q
    for _ in range(k):
        x = (x, _zero_like(x))
    return x


def _zero_like(x):
    if isinstance(x, tuple):
        return (_zero_like(x[0]), _zero_like(x[1]))
    return Fraction(0)


def coq_q(fr):
    return f"(mkq ({fr.numerator}) {fr.denominator})"


def coq_elem(x, gens=None):
    if isinstance(x, tuple):
        return f"({coq_elem(x[0])}, {coq_elem(x[1])})"
    return coq_q(x)


def coq_list(items):
    return "[" + "; ".join(items) + "]"


def coq_epoly(f):
    """f: list of (base_elem, [coeff_elems])"""
    return coq_list([f"({coq_elem(b)}, {coq_list([coq_elem(c) for c in cs])})" for b, cs in f])
