"""C02 / ConditionsNormalizer, the BERNOULLI ABSTRACTION of conditions over variables without a
finite type: correspondence between the Gallina model PassAbstraction.abstract_many (+ the
verified PassCondNorm.cn_pass for the finitely typed atoms; theorems in
props/C02_Abstraction.v) and the real pass.

For every run in which Polar abstracted (its snapshot after ConditionsNormalizer contains coins
`_aK = Bernoulli(_probK)` that are not in the snapshot after TypeInferer), inside Coq:
 (i)  PassAbstractionMatch.abs_matches: the model, applied to the snapshot BEFORE the pass with
      only (position, coin name, probability-symbol name) read off Polar's output, reproduces
      Polar's snapshot AFTER the pass (conditions as conjunct lists after simplify(), Or-chains as
      sets, right-hand sides up to polynomial normal form).  false => VIOLATION
      pass-model:BernoulliAbstraction:<program>.
 (ii) abs_ok (= many_ok, the verified side conditions) and check_types of the abstracted program.
      false although Polar accepted is NOT an alarm: counted as accepted_by_polar_outside_theorem
      (statements that read the abstracted draw later, continuous draws); Polar relies on
      RecBuilder._check_abstraction_is_independent there.
Independently of (i)/(ii), for every discrete probe the moments Polar computes (closed forms with
the probability symbols replaced by probabilities computed by tasks_abstraction.independent_prob)
are compared for n <= N with the exact reference semantics of the SOURCE program
(oracle.exact_moments, Coq); a mismatch is a VIOLATION with the concrete input.  Where (ii)
holds, the value the theorem requires for the probability symbol (abs_probs, computed in Coq) is
compared with the independently computed probability.

c02's generator has no abstraction programs: the probes below are run here through the real
Polar (kind abs_analyze, snapshots)."""
import json
import re
import time
from fractions import Fraction

import lib
import core
import gen
import oracle
import progast as P
from pass_constants import snapshot_pair, flat_term, ensure_built

HEADER = ("From Coq Require Import List String QArith Qcanon ZArith.\n"
          "From Polar Require Import Qcx Dist Syntax Sem Types Poly PassCNBase PassCondNorm PassAbstraction PassAbstractionMatch.\n"
          "Import ListNotations.\nOpen Scope string_scope.\n")
N_ORACLE = 4


# ---- probes ------------------------------------------------------------------------------------
def _probes():
    """(program, goals, tag, expectation) — expectation: "theorem" (accepted, side conditions hold),
    "outside" (accepted, side conditions false), "refused" (Polar must refuse or be right), "continuous" """
    c, v, F = P.const, P.var, Fraction
    out = []
    exp = {"abstraction:same-condition-twice": "theorem", "abstraction:two-conditions-one-draw": "refused",
           "abstraction:elif-chain-one-draw": "refused", "abstraction:else": "refused",
           "abstraction:goal-mentions-abstracted-draw": "theorem", "abstraction:later-assignment-reads-abstracted-draw": "outside",
           "abstraction:assignment-reads-copy-of-draw": "refused", "abstraction:assignment-reads-descendant-of-draw": "refused"}
    for p, goals, tag, _ in gen.abstraction_corpus():
        out.append((p, goals, tag, exp.get(tag, "any")))
    det = lambda x, e: ("assign", x, P.det(e))
    inc = lambda z, k: det(z, ("add", v(z), c(k)))
    unif = lambda x, a, b: ("assign", x, ("draw", ("unif", a, b)))
    bern = lambda x, q: ("assign", x, ("draw", ("bern", c(q))))
    le = lambda x, k: ("atom", v(x), "<=", c(k))
    iff = lambda cnd, body: ("if", [(cnd, body)], None)
    init = lambda *xs: [det(x, c(0)) for x in xs]
    T = ("true",)
    # two coins, the first one reused after the second was created
    out.append(({"types": [], "init": init("x", "y", "d", "g"), "guard": T,
                 "body": [unif("d", 1, 30), unif("g", 1, 40), iff(le("d", 15), [inc("x", 1)]), iff(le("g", 10), [inc("y", 1)]),
                          iff(le("d", 15), [inc("y", 2)])]},
                [{"x": 1}, {"y": 1}, {"x": 1, "y": 1}, {"y": 2}], "abs:two-coins-first-reused", "theorem"))
    # a loop guard: the draw is conditioned on the guard, Polar refuses (iteration dependency)
    out.append(({"types": [], "init": init("x", "c", "d"), "guard": ("atom", v("c"), "==", c(0)),
                 "body": [unif("d", 1, 30), iff(le("d", 15), [inc("x", 1)]), bern("c", F(1, 2))]},
                [{"x": 1}, {"x": 2}], "abs:loop-guard", "refused"))
    # the condition is over a deterministic function of the draw
    out.append(({"types": [], "init": init("x", "d", "h"), "guard": T,
                 "body": [unif("d", 1, 30), det("h", ("add", ("mul", c(2), v("d")), c(1))), iff(le("h", 20), [inc("x", 1)])]},
                [{"x": 1}, {"x": 2}], "abs:function-of-draw", "theorem"))
    # a non-reduced atom over two draws: ConditionsReducer's alias _r = d + g - 20 is the failed variable
    out.append(({"types": [], "init": init("x", "d", "g"), "guard": T,
                 "body": [unif("d", 1, 30), unif("g", 1, 26), iff(("atom", ("add", v("d"), v("g")), "<=", c(20)), [inc("x", 1)])]},
                [{"x": 1}, {"x": 2}], "abs:sum-of-two-draws", "theorem"))
    # a conjunct over a finitely typed variable next to the bad one; the good part is normalised
    out.append(({"types": [], "init": init("x", "y", "b", "d"), "guard": T,
                 "body": [bern("b", F(1, 3)), unif("d", 1, 30),
                          iff(("and", le("d", 15), ("atom", v("b"), ">=", c(1))), [inc("x", 1)]), iff(le("d", 15), [inc("y", 1)])]},
                [{"x": 1}, {"x": 1, "y": 1}, {"x": 1, "b": 1}], "abs:good-and-bad-conjunct", "theorem"))
    # a later statement reads the abstracted draw: accepted by the pass, E(x*y) must be refused later
    out.append(({"types": [], "init": init("x", "y", "d"), "guard": T,
                 "body": [unif("d", 1, 30), iff(le("d", 15), [inc("x", 1)]), det("y", ("add", v("y"), v("d")))]},
                [{"x": 1}, {"y": 1}, {"x": 1, "y": 1}], "abs:later-sum-reads-draw", "outside"))
    # the condition is over the square of a draw (30 values, not finitely typed)
    out.append(({"types": [], "init": init("x", "d", "k"), "guard": T,
                 "body": [unif("k", 0, 29), det("d", ("mul", v("k"), v("k"))), iff(("atom", v("d"), ">", c(100)), [inc("x", 2)])]},
                [{"x": 1}, {"x": 2}], "abs:square-of-draw", "theorem"))
    # continuous draw: outside the discrete theorem, correspondence (i) only
    out.append(({"types": [], "init": init("x", "u"), "guard": T,
                 "body": [("assign", "u", ("draw", ("cont", "Normal", [c(0), c(1)]))), iff(("atom", v("u"), ">", c(0)), [inc("x", 1)])]},
                [], "abs:continuous-draw", "continuous"))
    return out


def random_probes(rng, count):
    """random shapes: one or two draws with 26..34 values, an optional finitely typed coin b, one to three
    if-statements whose conditions are drawn from a small pool (the same condition again = reuse; a different
    threshold over the same draw / a sum of both draws = shapes Polar must refuse), optional else branch,
    optional trailing statement reading the draw (outside the theorem)"""
    c, v, F = P.const, P.var, Fraction
    det = lambda x, e: ("assign", x, P.det(e))
    inc = lambda z, k: det(z, ("add", v(z), c(k)))
    out = []
    for k in range(count):
        nd = rng.choice([1, 1, 2])
        dn = ["d", "g"][:nd]
        hi = [rng.randint(26, 34) for _ in dn]
        body = [("assign", dn[i], ("draw", ("unif", 1, hi[i]))) for i in range(nd)]
        use_b = rng.random() < 0.4
        if use_b:
            body.insert(rng.randint(0, len(body)), ("assign", "b", ("draw", ("bern", c(F(1, rng.choice([2, 3, 4])))))))
        th = [rng.randint(3, h - 3) for h in hi]
        pool = [("atom", v("d"), rng.choice(["<=", ">", "<", ">="]), c(th[0]))]
        if nd == 2:
            pool.append(("atom", v("g"), rng.choice(["<=", ">", "<", ">="]), c(th[1])))
            if rng.random() < 0.4:
                pool.append(("atom", ("add", v("d"), v("g")), "<=", c(th[0] + th[1])))
        if rng.random() < 0.25:
            pool.append(("atom", v("d"), "<=", c(max(1, th[0] - 2))))
        # distinct targets: a second update of the same variable under an abstracted condition is refused
        # (the dependency information is computed before the abstraction); now and then one is repeated
        tgts = rng.sample(["x", "y", "w"], rng.randint(1, 3))
        if len(tgts) > 1 and rng.random() < 0.1:
            tgts[-1] = tgts[0]
        for tgt in tgts:
            cnd = rng.choice(pool)
            if use_b and rng.random() < 0.4:
                cnd = ("and", cnd, ("atom", v("b"), "==", c(1)))
            els = [inc(tgt, rng.randint(1, 2))] if rng.random() < 0.08 else None
            body.append(("if", [(cnd, [inc(tgt, rng.randint(1, 3))])], els))
        trailing = nd == 1 and rng.random() < 0.25
        if trailing:
            body.append(det("z", ("add", v("z"), v("d"))))
        goals = [{"x": 1}, {"y": 1}, {"x": 1, "y": 1}, {"x": 1, "w": 1}, {tgts[0]: 2}] + ([{"z": 1}, {tgts[0]: 1, "z": 1}] if trailing else [])
        ivars = ["x", "y", "w"] + (["z"] if trailing else []) + dn + (["b"] if use_b else [])
        out.append(({"types": [], "init": [det(x, c(0)) for x in ivars], "guard": ("true",), "body": body}, goals, f"abs:random-{k}", "any"))
    return out


_CACHE = {}


def fast_exact_moments(ctx, cases, timeout=200):
    """oracle.exact_moments with the compaction key restricted: variables assigned by the leading
    unconditional discrete draws of the loop body (re-drawn at the top of every iteration before any
    read) and not mentioned by the goals are left out of the key of Search.compact (they are reset to 0
    at iteration boundaries, which cannot change the law of the other variables); cross-checked against
    the plain Sem.run for n <= 1 (n <= 2 for small supports) in the same Coq run"""
    files = []
    for j, (p, ms, N) in enumerate(cases):
        lead, size = [], 1
        for s in p["body"]:
            if s[0] == "assign" and s[2][0] == "draw" and s[2][1][0] in ("unif", "bern", "cat"):
                lead.append(s[1])
                d = s[2][1]
                size *= (d[2] - d[1] + 1) if d[0] == "unif" else 2 if d[0] == "bern" else len(d[1])
            else:
                break
        used = {x for m in ms for x in m}
        excl = {x for x in lead if x not in used}
        vs = [x for x in P.prog_vars(p) if x not in excl]
        body = P.COQ_HEADER.replace("Syntax Sem", "Syntax Sem Types Search")
        body += f"Definition p0 : prog := {P.prog_coq(p)}.\n"
        body += f"Definition ms0 : list mono := {P.lst([P.mono_coq(m) for m in ms])}.\n"
        vl = P.lst(['"%s"' % v for v in vs])
        body += f"Eval vm_compute in (src_moments_c {vl} p0 ms0 {N}).\n"
        body += f"Eval vm_compute in (src_moments p0 ms0 {1 if size > 100 else 2}).\n"
        files.append((f"absoracle_{j}", body))
    outs = lib.coq_run_many(ctx, files, timeout=timeout)
    results = []
    for j, (p, ms, N) in enumerate(cases):
        okc, o = outs[f"absoracle_{j}"]
        rs = oracle.parse_results(o) if okc else []
        if len(rs) != 2 or len(rs[0]) != N + 1 or any(len(r) != len(ms) for r in rs[0]):
            results.append(None)
            continue
        if rs[0][:len(rs[1])] != rs[1]:
            raise RuntimeError("oracle self-check failed: compacted and plain semantics disagree on\n" + P.prog_text(p))
        results.append(rs[0])
    return results


def probe_results(ctx):
    if "r" in _CACHE:
        return _CACHE["r"]
    probes = _probes() + ([] if ctx.replay else random_probes(ctx.rng, ctx.pick(8, 60)))
    tasks = []
    for p, goals, tag, _ in probes:
        tasks.append({"kind": "abs_analyze", "text": P.prog_text(p), "goals": [gen.goal_text(m) for m in goals], "nvals": N_ORACLE + 1,
                      "snapshots": True, "all_monomials": False, "opts": {}, "timeout": 100})
    res = lib.run_tasks(tasks, timeout=100)
    _CACHE["r"] = (probes, res)
    return _CACHE["r"]


# ---- coins of a snapshot pair ------------------------------------------------------------------
def coins_of(before, after):
    """[(position in the output body, coin, probability symbol)]; None if a coin sits in the initial block"""
    bvars = {a["var"] for a in before["body"]} | {a["var"] for a in before["init"]}
    syms = set(after.get("symbols", []))

    def coin(a):
        r = a.get("rhs")
        if not r or r[0] != "draw" or r[1][0] != "bern" or a["var"] in bvars:
            return None
        d = r[1][1]
        if len(d) == 1 and Fraction(d[0][0]) == 1 and len(d[0][1]) == 1 and d[0][1][0][1] == 1 and d[0][1][0][0] in syms:
            return d[0][1][0][0]
        return None
    if any(coin(a) for a in after["init"]):
        return None
    return [(i, a["var"], coin(a)) for i, a in enumerate(after["body"]) if coin(a)]


def parse_probs(o):
    m = re.search(r"=\s*\[(.*?)\]\s*:\s*list \(var \* \(Z \* positive\)\)", o, re.S)
    if not m:
        return None
    out = {}
    for name, num, den in re.findall(r'"([^"]+)"[^,]*,\s*\(\(?(-?\d+)\)?(?:%Z)?\s*,\s*(\d+)(?:%positive)?\)', m.group(1)):
        out[name] = Fraction(int(num), int(den))
    return out


def case_file(c):
    l = P.lst([f'({i}%nat, ("{a}", "{p}"))' for i, a, p in c["coins"]])
    return (HEADER + f"Definition T0 : tenv := {c['T']}.\nDefinition fin0 : flatprog := {c['fin']}.\n"
            f"Definition fout0 : flatprog := {c['fout']}.\nDefinition l0 : list (nat * (var * var)) := {l}.\n"
            "Eval vm_compute in [abs_matches T0 fin0 fout0 l0; abs_ok T0 fin0 l0; abs_types_ok T0 fin0 l0].\n"
            "Eval vm_compute in (abs_probs T0 fin0 l0).\n"
            "Eval vm_compute in (abs_report T0 fin0 l0).\n")


def run_pass(ctx, runs):
    t0 = time.time()
    ok, log = ensure_built("theories/PassAbstractionMatch.vo", ["theories/PassAbstraction.vo", "theories/PassCNMatch.vo", "theories/PassCondNorm.vo"])
    cov = ctx.coverage.setdefault("pass_models", {})
    st = {"instances": 0, "model_equals_polar": 0, "side_conditions_hold": 0, "accepted_by_polar_outside_theorem": 0,
          "outside_theorem_continuous": 0, "check_types_of_abstracted_program": 0, "coins": 0, "reused_coins": 0,
          "probability_symbol_value_checked": 0, "probes": 0, "probes_refused_by_polar": 0, "refused_expected_and_refused": 0,
          "moments_compared_with_exact_semantics": 0, "moments_refused_by_polar": 0, "not_modelled": 0, "coq_failed": 0,
          "abstraction_in_initial_block": 0}
    cov["BernoulliAbstraction"] = st
    if not ok:
        ctx.violation("pass-model:BernoulliAbstraction:build", {"log": log[-2000:]}, "theories/PassAbstractionMatch.v does not build", no_input=True)
        return
    t_p = time.time()
    probes, pres = probe_results(ctx)
    st["probes"] = len(probes)
    st["polar_seconds"] = round(time.time() - t_p, 1)
    items = []  # (run-like dict, probe index or None)
    for run in runs:
        items.append((run, None))
    for k, ((p, goals, tag, expect), r) in enumerate(zip(probes, pres)):
        if "error" in r:
            st.setdefault("probe_errors", []).append([tag, r["error"]])
            continue
        items.append(({"text": P.prog_text(p), "opts": {}, "snapshots": r.get("snapshots") or []}, k))
    cases, seen = [], set()
    for run, k in items:
        pair = snapshot_pair(run, "TypeInferer", "ConditionsNormalizer")
        if pair is None:
            continue
        if pair == "unsupported":
            continue
        a, b = pair
        coins = coins_of(a, b)
        if coins is None:
            st["abstraction_in_initial_block"] += 1
            continue
        if not coins:
            continue
        key = json.dumps([a["init"], a["body"], b["init"], b["body"], b["types"]], sort_keys=True)
        if key in seen:
            continue
        seen.add(key)
        try:
            cases.append({"text": run["text"], "opts": run["opts"], "fin": flat_term(a), "fout": flat_term(b), "T": core.types_coq(b["types"]),
                          "types": b["types"], "coins": coins, "probe": k,
                          "uses": sum(json.dumps(x["cond"]).count('"%s"' % cn) for _, cn, _ in coins for x in b["body"])})
        except core.NotModelled:
            st["not_modelled"] += 1
    outs = lib.coq_run_many(ctx, [(f"pabs_{j}", case_file(c)) for j, c in enumerate(cases)], timeout=300)
    by_probe = {}
    for j, c in enumerate(cases):
        okc, o = outs[f"pabs_{j}"]
        bl = lib.parse_bool_list(o) if okc else None
        if not bl or len(bl) != 3:
            st["coq_failed"] += 1
            ctx.violation(f"pass-model:BernoulliAbstraction:coq:{c['text']}", {"output": o[-2000:], "program_text": c["text"]},
                          "the Bernoulli-abstraction model could not be evaluated inside Coq on Polar's snapshots", no_input=True)
            continue
        matches, side_ok, typed = bl
        c.update({"matches": matches, "side_ok": side_ok, "typed": typed, "coq_probs": parse_probs(o) or {},
                  "report": (re.findall(r"=\s*(\[.*?\])\s*:\s*list \(list var \* list var\)", o, re.S) or [""])[0]})
        if c["probe"] is not None:
            by_probe[c["probe"]] = c
        st["instances"] += 1
        st["coins"] += len(c["coins"])
        st["reused_coins"] += max(0, c["uses"] - len(c["coins"]))
        ctx.coverage["obligations"] += 1
        ctx.count({"pass": "BernoulliAbstraction", "t": c["text"]}, nontrivial=True)
        if typed:
            st["check_types_of_abstracted_program"] += 1
        if side_ok:
            st["side_conditions_hold"] += 1
        else:
            st["accepted_by_polar_outside_theorem"] += 1
            st.setdefault("outside_theorem_programs", []).append(c["text"])
        if matches:
            st["model_equals_polar"] += 1
            ctx.coverage["discharged"] += 1
        else:
            okm, om = lib.coq_run(ctx, "pabs_show", HEADER + f"Eval vm_compute in (abs_model {c['T']} {c['fin']} "
                                  + P.lst([f'({i}%nat, ("{a}", "{p}"))' for i, a, p in c["coins"]]) + ").\n", timeout=120)
            c["mismatch"] = {"program_text": c["text"], "options": c["opts"], "types": c["types"], "coins": c["coins"],
                             "correspondence": "PassAbstraction.abstract_many (auto_specs) + PassCondNorm.cn_pass vs ConditionsNormalizer._normalize_conditions / "
                                               "_try_abstract_failed_condition / _partition_condition",
                             "polar_input": c["fin"], "polar_output": c["fout"], "model_output": om[-4000:] if okm else None,
                             "theorem": "props/C02_Abstraction.v: C02_abs_pass_preserves is about the model, which no longer describes the code"}
            if c["probe"] is None:
                ctx.violation(f"pass-model:BernoulliAbstraction:{c['text']}", c["mismatch"],
                              "the model of the Bernoulli abstraction (PassAbstraction.abstract_many) and the real pass produce different programs for\n" + c["text"],
                              no_input=True)
    # ---- probes: refusal expectations, exact oracle on the source programs --------------------
    ocases, omap = [], []
    for k, ((p, goals, tag, expect), r) in enumerate(zip(probes, pres)):
        if "error" in r:
            continue
        if "exception" in r:
            st["probes_refused_by_polar"] += 1
            if expect == "refused":
                st["refused_expected_and_refused"] += 1
            elif expect in ("theorem", "outside", "continuous"):
                st.setdefault("unexpected_refusals", []).append([tag, r["exception"].get("msg", "")[:120]])
            continue
        if goals and expect != "continuous":
            ocases.append((p, goals, N_ORACLE))
            omap.append(k)
    t_or = time.time()
    exact = fast_exact_moments(ctx, ocases, timeout=200) if ocases else []
    st["oracle_seconds"] = round(time.time() - t_or, 1)
    st["oracle_timeouts"] = sum(1 for e in exact if e is None)
    exact_by = dict(zip(omap, exact))
    for k, ((p, goals, tag, expect), r) in enumerate(zip(probes, pres)):
        if "error" in r or "exception" in r:
            continue
        text = P.prog_text(p)
        c = by_probe.get(k)
        store = {s[0]: (Fraction(s[2]) if s[2] is not None else None) for s in r.get("abs_store", [])}
        # the value the theorem requires for the probability symbol = the independently computed P(C)
        if c is not None and c["side_ok"] and c["matches"]:
            for _, _, pn in c["coins"]:
                if store.get(pn) is not None and pn in c["coq_probs"]:
                    st["probability_symbol_value_checked"] += 1
                    if store[pn] != c["coq_probs"][pn]:
                        ctx.violation(f"abstraction-probability:{text}:{pn}",
                                      {"program_text": text, "symbol": pn, "abs_prob_in_coq": str(c["coq_probs"][pn]), "independent_probability": str(store[pn])},
                                      f"the value PassAbstraction.abs_prob requires for {pn} ({c['coq_probs'][pn]}) is not the probability of the abstracted "
                                      f"condition computed independently ({store[pn]})\n{text}", no_input=True)
        if c is not None and not c["side_ok"] and expect == "continuous":
            st["outside_theorem_continuous"] += 1
        ex = exact_by.get(k)
        found_input = False
        for gi, (m, gr) in enumerate(zip(goals, r.get("goals", []))):
            gname = gen.goal_text(m)
            if "exception" in gr:
                st["moments_refused_by_polar"] += 1
                continue
            inst = gr["instances"][0] if gr.get("instances") else None
            if inst is None or "values" not in inst or ex is None:
                continue
            try:
                import sympy
                idx = gr["sol_monomials"].index(str(sympy.sympify(gname)))
            except (ValueError, KeyError):
                idx = 0
            bad = None
            for n in range(N_ORACLE + 1):
                s = inst["values"][n][idx] if n < len(inst["values"]) else "~"
                if s.startswith("~"):
                    continue
                if Fraction(s) != ex[n][gi]:
                    bad = (n, Fraction(s), ex[n][gi])
                    break
            st["moments_compared_with_exact_semantics"] += 1
            ctx.count({"pass": "BernoulliAbstraction", "t": text, "g": gname}, nontrivial=True)
            if bad:
                found_input = True
                ctx.violation(f"abstraction-moment:{text}:{gname}",
                              {"program_text": text, "prog_json": P.to_json(p), "goal": gname, "n": bad[0], "polar_value": str(bad[1]),
                               "reference_value": str(bad[2]), "closed_form": gr.get("sols"), "probabilities": {a: str(b) for a, b in store.items()},
                               "flat_program": r.get("flat_text"), "side_conditions_of_the_theorem_hold": None if c is None else c["side_ok"],
                               "model_equals_polar": None if c is None else c["matches"]},
                              f"Bernoulli abstraction: E({gname}) = {bad[1]} at n={bad[0]} according to Polar (probability symbols replaced by the "
                              f"independently computed probabilities {({a: str(b) for a, b in store.items()})}), exactly {bad[2]}\n{text}")
        if c is not None and not c["matches"] and not found_input:
            ctx.violation(f"pass-model:BernoulliAbstraction:{text}", c["mismatch"],
                          "the model of the Bernoulli abstraction (PassAbstraction.abstract_many) and the real pass produce different programs for\n" + text,
                          no_input=True)
        if c is not None and len(ctx.coverage["samples"]) < 6 and c["matches"] and c["side_ok"]:
            ctx.sample({"program": text, "coins": c["coins"], "hidden_and_failed_variables": c["report"],
                        "required_probabilities": {a: str(b) for a, b in c["coq_probs"].items()},
                        "model_equals_polar": True, "side_conditions_hold": True}, limit=8)
    print(f"  [pass BernoulliAbstraction] probes={st['probes']} refused={st['probes_refused_by_polar']} instances={st['instances']} "
          f"model==polar={st['model_equals_polar']} side_conditions={st['side_conditions_hold']} outside_theorem={st['accepted_by_polar_outside_theorem']} "
          f"coins={st['coins']} reused={st['reused_coins']} prob_checked={st['probability_symbol_value_checked']} "
          f"moments_vs_exact={st['moments_compared_with_exact_semantics']} moments_refused={st['moments_refused_by_polar']} "
          f"wall={time.time() - t0:.1f}s", flush=True)
    ctx.coverage["trusted_base"] += ["harness/pass_abstraction.py + harness/core.py: conversion of Polar's snapshots to Syntax.flatprog / Types.tenv, reading the "
                                     "position and the two generated names of every coin off Polar's output (the comparison PassAbstractionMatch.abs_matches and the "
                                     "side conditions run inside Coq); harness/tasks_abstraction.py independent_prob (probabilities of abstracted conditions)"]
    ctx.assumptions += ["Bernoulli abstraction: C02_abs_pass_preserves needs the verified side conditions many_ok (evaluated on every instance: "
                        f"{st['side_conditions_hold']}/{st['instances']} true; false on {st['accepted_by_polar_outside_theorem']} programs Polar accepts — later statements "
                        "reading the abstracted draw, continuous draws — which are validated only), check_types of the abstracted program "
                        f"({st['check_types_of_abstracted_program']}/{st['instances']}) and the value of the probability symbol in the start state (= P(C), "
                        f"cross-checked {st['probability_symbol_value_checked']} times); DISCRETE draws only, continuous draws are validated by correspondence (i) only"]
