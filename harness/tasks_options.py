"""Worker tasks for C17 (options): the real command-line path.  `task_options_cli` feeds an
argv to cli.ArgumentParser (which writes the global settings module), runs the action the
factory selects (GoalsAction) on a benchmark file and returns the settings as the CLI left
them together with the printed closed forms and their `Solution is exact / rounded` lines."""
import io
import os
import re
import sys
import tempfile

ANSI = re.compile(r"\x1b\[[0-9;]*m")

SETTING_NAMES = ["transform_categoricals", "cond2arithm", "disable_type_inference", "type_fp_iterations", "numeric_roots",
                 "numeric_croots", "numeric_eps", "trivial_guard", "exact_func_moments"]


def settings_snapshot():
    import settings
    return {k: getattr(settings, k) for k in SETTING_NAMES}


DEFAULTS = {"transform_categoricals": False, "cond2arithm": False, "disable_type_inference": False, "type_fp_iterations": 100,
            "numeric_roots": False, "numeric_croots": False, "numeric_eps": 1e-10, "trivial_guard": False,
            "exact_func_moments": False}


def settings_pristine():
    """the values of /repo/settings.py in a fresh process (the worker is long-lived; the argparse
    defaults are read from the module when ArgumentParser() is constructed)"""
    import settings
    for k, v in DEFAULTS.items():
        setattr(settings, k, v)


def parse_cli_output(out):
    """-> list of {goal, text, exact} for lines `E(x) = v0; v1; general` followed by the exactness line"""
    res = []
    lines = [ANSI.sub("", ln) for ln in out.splitlines()]
    cur = None
    for ln in lines:
        m = re.match(r"^(E\(.*?\)|[A-Za-z_][\w*]*) = (.*)$", ln)
        if m and "|" not in m.group(1):
            cur = {"goal": m.group(1), "text": m.group(2), "exact": None}
            res.append(cur)
        elif cur is not None and ln.startswith("Solution is "):
            cur["exact"] = (ln.strip() == "Solution is exact")
            cur = None
    return res


def task_options_cli(task):
    """task: text (program), flags [cli flags], goals [monomials]"""
    from tasks_core import classify_exception
    from cli import ArgumentParser
    from cli.actions import ActionFactory
    res = {}
    fd, path = tempfile.mkstemp(suffix=".prob")
    with os.fdopen(fd, "w") as f:
        f.write(task["text"])
    argv_old, stdout_old = sys.argv, sys.stdout
    settings_pristine()
    buf = io.StringIO()
    try:
        sys.argv = ["polar.py", path, "--goals"] + [f"E({g})" for g in task["goals"]] + list(task.get("flags", []))
        args = ArgumentParser().parse_args()
        res["settings"] = settings_snapshot()
        sys.stdout = buf
        action = ActionFactory.create_action(args)
        res["action"] = type(action).__name__
        for b in args.benchmarks:
            action(b)
    except BaseException as e:  # noqa
        res["exception"] = classify_exception(e)
    finally:
        sys.argv, sys.stdout = argv_old, stdout_old
        try:
            os.unlink(path)
        except OSError:
            pass
    res["settings_after"] = settings_snapshot()
    res["printed"] = parse_cli_output(buf.getvalue())
    return res
