"""Shared helpers of the core checks: turning Polar's structural dumps (tasks_core.py) into
progast expressions / Coq terms (Syntax.flatprog, Types.tenv), running batches."""
from fractions import Fraction

import progast as P


class NotModelled(Exception):
    pass


def poly_to_expr(d, subs=None):
    """dump_expr output -> progast expression (sum of coeff * prod var^k); subs: {name: Fraction}"""
    subs = subs or {}
    terms = []
    for co, mon in d:
        t = None
        for x, k in mon:
            base = P.const(subs[x]) if x in subs else P.var(x)
            f = base if k == 1 else ("pow", base, k)
            t = f if t is None else ("mul", t, f)
        c = Fraction(co)
        if t is None:
            t = P.const(c)
        elif c != 1:
            t = ("mul", P.const(c), t)
        terms.append(t)
    if not terms:
        return P.const(0)
    e = terms[0]
    for t in terms[1:]:
        e = ("add", e, t)
    return e


def cond_to_ast(c, subs=None):
    k = c[0]
    if k in ("true", "false"):
        return (k,)
    if k == "atom":
        return ("atom", poly_to_expr(c[1], subs), c[2], poly_to_expr(c[3], subs))
    if k == "not":
        return ("not", cond_to_ast(c[1], subs))
    return (k, cond_to_ast(c[1], subs), cond_to_ast(c[2], subs))


def rhs_to_ast(r, subs=None):
    if r[0] == "choice":
        return ("choice", [(poly_to_expr(p, subs), poly_to_expr(e, subs)) for p, e in r[1]])
    if r[0] == "draw":
        d = r[1]
        if d[0] == "bern":
            return ("draw", ("bern", poly_to_expr(d[1], subs)))
        if d[0] == "cat":
            return ("draw", ("cat", [poly_to_expr(p, subs) for p in d[1]]))
        if d[0] == "unif":
            return ("draw", ("unif", d[1], d[2]))
        if d[0] == "cont":
            args = []
            for _, v in d[2]:
                if isinstance(v, str):
                    raise NotModelled(f"distribution parameter {v}")
                args.append(poly_to_expr(v, subs))
            return ("draw", ("cont", d[1], args))
    raise NotModelled(f"rhs {r[0]}")


def ga_coq(a, subs=None):
    if "if" in a:
        raise NotModelled("if-statement in flat program")
    return (f'{{| ga_var := "{a["var"]}"; ga_cond := {P.c_coq(cond_to_ast(a["cond"], subs))}; '
            f'ga_default := "{a["default"]}"; ga_rhs := {P.r_coq(rhs_to_ast(a["rhs"], subs))} |}}')


def flat_coq(flat, subs=None):
    return (f"{{| fp_init := {P.lst([ga_coq(a, subs) for a in flat['init']])}; "
            f"fp_body := {P.lst([ga_coq(a, subs) for a in flat['body']])} |}}")


def types_coq(types):
    items = []
    for v, vals in types:
        if isinstance(vals, str):
            continue
        try:
            qs = [Fraction(x) for x in vals]
        except Exception:
            continue
        items.append(f'("{v}", {P.lst([P.q_coq(q) for q in qs])})')
    return P.lst(items)


def numeric_types(types):
    out = {}
    for v, vals in types:
        if isinstance(vals, str):
            continue
        try:
            out[v] = [Fraction(x) for x in vals]
        except Exception:
            pass
    return out


FLAT_HEADER = ("From Coq Require Import List String QArith Qcanon ZArith.\n"
               "From Polar Require Import Qcx Dist Syntax Sem Types.\nImport ListNotations.\nOpen Scope string_scope.\n")


def system_coq(gr, inst):
    """(ms, A, v) Coq terms of one Polar-built system instance; the constant column of an
    inhomogeneous system is the empty monomial"""
    ms = []
    for d in gr["monomial_dumps"]:
        if len(d) != 1 or Fraction(d[0][0]) != 1:
            raise NotModelled(f"system monomial {d}")
        ms.append({x: k for x, k in d[0][1]})
    if gr.get("is_inhomogeneous"):
        ms.append({})
    A = [[Fraction(x) for x in row] for row in inst["A"]]
    v = [Fraction(x) for x in inst["v"]]
    if len(A) != len(ms) or len(v) != len(ms):
        raise NotModelled("system shape")
    ms_c = P.lst([P.mono_coq(m) for m in ms])
    A_c = P.lst([P.lst([P.q_coq(x) for x in row]) for row in A])
    v_c = P.lst([P.q_coq(x) for x in v])
    return ms, ms_c, A_c, v_c


WP_HEADER = ("From Coq Require Import List String QArith Qcanon ZArith.\n"
             "From Polar Require Import Qcx CRing ExpPoly ClosedForm Dist Syntax Sem Types Poly Pipeline Wp Search.\n"
             "Import ListNotations.\nOpen Scope string_scope.\n"
             "Definition cm0 : string -> list Qc -> nat -> Qc := fun _ _ _ => 0%Qc.\n")


# ---- pass snapshots (tasks_core.dump_program) -> progast programs ---------------------------
def stmt_from_dump(d, subs=None):
    if "if" in d:
        brs = [(cond_to_ast(c, subs), [stmt_from_dump(x, subs) for x in b]) for c, b in d["if"]]
        els = [stmt_from_dump(x, subs) for x in d["else"]] if d.get("else") else None
        return ("if", brs, els)
    rhs = rhs_to_ast(d["rhs"], subs)
    a = ("assign", d["var"], rhs)
    c = cond_to_ast(d["cond"], subs)
    if c == ("true",):
        return a
    els = None if d["default"] == d["var"] else [("assign", d["var"], P.det(P.var(d["default"])))]
    return ("if", [(c, [a])], els)


def prog_from_dump(dump, subs=None):
    return {"types": [], "init": [stmt_from_dump(s, subs) for s in dump["init"]],
            "guard": cond_to_ast(dump["guard"], subs), "body": [stmt_from_dump(s, subs) for s in dump["body"]]}
