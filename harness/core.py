"""Shared helpers of the core checks: turning Polar's structural dumps (tasks_core.py) into
progast expressions / Coq terms (Syntax.flatprog, Types.tenv), running batches."""
from fractions import Fraction

import progast as P


class NotModelled(Exception):
    pass


def poly_to_expr(d, subs=None):
    """dump_expr output -> progast expression (sum of coeff * prod var^k); subs: {name: Fraction}"""
    subs = subs or {}
    terms = []
    for co, mon in d:
        t = None
        for x, k in mon:
            base = P.const(subs[x]) if x in subs else P.var(x)
            f = base if k == 1 else ("pow", base, k)
            t = f if t is None else ("mul", t, f)
        c = Fraction(co)
        if t is None:
            t = P.const(c)
        elif c != 1:
            t = ("mul", P.const(c), t)
        terms.append(t)
    if not terms:
        return P.const(0)
    if len(terms) > 200:
        # very long sums (Lagrange arithmetisation of conditions over 4-valued non-integer types):
        # balanced tree, so that the printers' recursion depth stays logarithmic
        while len(terms) > 1:
            terms = [("add", terms[i], terms[i + 1]) if i + 1 < len(terms) else terms[i] for i in range(0, len(terms), 2)]
        return terms[0]
    e = terms[0]
    for t in terms[1:]:
        e = ("add", e, t)
    return e


def cond_to_ast(c, subs=None):
    k = c[0]
    if k in ("true", "false"):
        return (k,)
    if k == "atom":
        return ("atom", poly_to_expr(c[1], subs), c[2], poly_to_expr(c[3], subs))
    if k == "not":
        return ("not", cond_to_ast(c[1], subs))
    return (k, cond_to_ast(c[1], subs), cond_to_ast(c[2], subs))


def rhs_to_ast(r, subs=None):
    if r[0] == "choice":
        return ("choice", [(poly_to_expr(p, subs), poly_to_expr(e, subs)) for p, e in r[1]])
    if r[0] == "draw":
        d = r[1]
        if d[0] == "bern":
            return ("draw", ("bern", poly_to_expr(d[1], subs)))
        if d[0] == "cat":
            return ("draw", ("cat", [poly_to_expr(p, subs) for p in d[1]]))
        if d[0] == "unif":
            return ("draw", ("unif", d[1], d[2]))
        if d[0] == "cont":
            # argument order = attribute names sorted (the convention of the pass models, e.g. law "Laplace" [b; mu])
            order = {"Normal": ["mu", "sigma2"], "Uniform": ["a", "b"], "Laplace": ["b", "mu"], "Exponential": ["lamb"],
                     "Gamma": ["k", "theta"], "Beta": ["a", "b", "scale"]}.get(d[1])
            if order is None:
                raise NotModelled(f"distribution {d[1]}")
            pd = dict((k, v) for k, v in d[2])
            args = []
            for k in order:
                v = pd.get(k)
                if v is None or isinstance(v, str):
                    raise NotModelled(f"distribution parameter {k}={v}")
                args.append(poly_to_expr(v, subs))
            if d[1] == "Beta" and args[2] == P.const(1):
                args = args[:2]
            return ("draw", ("cont", d[1], args))
    raise NotModelled(f"rhs {r[0]}")


def ga_coq(a, subs=None):
    if "if" in a:
        raise NotModelled("if-statement in flat program")
    return (f'{{| ga_var := "{a["var"]}"; ga_cond := {P.c_coq(cond_to_ast(a["cond"], subs))}; '
            f'ga_default := "{a["default"]}"; ga_rhs := {P.r_coq(rhs_to_ast(a["rhs"], subs))} |}}')


def flat_coq(flat, subs=None):
    return (f"{{| fp_init := {P.lst([ga_coq(a, subs) for a in flat['init']])}; "
            f"fp_body := {P.lst([ga_coq(a, subs) for a in flat['body']])} |}}")


def types_coq(types):
    items = []
    for v, vals in types:
        if isinstance(vals, str):
            continue
        try:
            qs = [Fraction(x) for x in vals]
        except Exception:
            continue
        items.append(f'("{v}", {P.lst([P.q_coq(q) for q in qs])})')
    return P.lst(items)


def numeric_types(types):
    out = {}
    for v, vals in types:
        if isinstance(vals, str):
            continue
        try:
            out[v] = [Fraction(x) for x in vals]
        except Exception:
            pass
    return out


FLAT_HEADER = ("From Coq Require Import List String QArith Qcanon ZArith.\n"
               "From Polar Require Import Qcx Dist Syntax Sem Types.\nImport ListNotations.\nOpen Scope string_scope.\n")


def system_coq(gr, inst):
    """(ms, A, v) Coq terms of one Polar-built system instance; the constant column of an
    inhomogeneous system is the empty monomial"""
    ms = []
    for d in gr["monomial_dumps"]:
        if len(d) != 1 or Fraction(d[0][0]) != 1:
            raise NotModelled(f"system monomial {d}")
        ms.append({x: k for x, k in d[0][1]})
    if gr.get("is_inhomogeneous"):
        ms.append({})
    A = [[Fraction(x) for x in row] for row in inst["A"]]
    v = [Fraction(x) for x in inst["v"]]
    if len(A) != len(ms) or len(v) != len(ms):
        raise NotModelled("system shape")
    ms_c = P.lst([P.mono_coq(m) for m in ms])
    A_c = P.lst([P.lst([P.q_coq(x) for x in row]) for row in A])
    v_c = P.lst([P.q_coq(x) for x in v])
    return ms, ms_c, A_c, v_c


WP_HEADER = ("From Coq Require Import List String QArith Qcanon ZArith.\n"
             "From Polar Require Import Qcx CRing ExpPoly ClosedForm Dist Syntax Sem Types Poly Pipeline Wp Search.\n"
             "Import ListNotations.\nOpen Scope string_scope.\n"
             "Definition cm0 : string -> list Qc -> nat -> Qc := fun _ _ _ => 0%Qc.\n")
WP_HEADER_CONT = WP_HEADER.replace("Wp Search.", "Wp Search Cmom.")


# ---- pass snapshots (tasks_core.dump_program) -> progast programs ---------------------------
def stmt_from_dump(d, subs=None):
    if "if" in d:
        brs = [(cond_to_ast(c, subs), [stmt_from_dump(x, subs) for x in b]) for c, b in d["if"]]
        els = [stmt_from_dump(x, subs) for x in d["else"]] if d.get("else") else None
        return ("if", brs, els)
    rhs = rhs_to_ast(d["rhs"], subs)
    a = ("assign", d["var"], rhs)
    c = cond_to_ast(d["cond"], subs)
    if c == ("true",):
        return a
    els = None if d["default"] == d["var"] else [("assign", d["var"], P.det(P.var(d["default"])))]
    return ("if", [(c, [a])], els)


def prog_from_dump(dump, subs=None):
    return {"types": [], "init": [stmt_from_dump(s, subs) for s in dump["init"]],
            "guard": cond_to_ast(dump["guard"], subs), "body": [stmt_from_dump(s, subs) for s in dump["body"]]}


# ---- source-level end-to-end validator (SrcPipeline.check_pipeline_src) ---------------------
def desugar(p):
    """the parser's treatment of simultaneous assignment: temporaries _t<k>, then copies"""
    k = [0]

    def ds(b):
        out = []
        for s in b:
            if s[0] == "simult":
                tmps = []
                for x, r in s[1]:
                    t = f"_t{k[0]}"
                    k[0] += 1
                    tmps.append((x, t))
                    out.append(("assign", t, r))
                for x, t in tmps:
                    out.append(("assign", x, P.det(P.var(t))))
            elif s[0] == "if":
                out.append(("if", [(c, ds(bb)) for c, bb in s[1]], ds(s[2]) if s[2] is not None else None))
            else:
                out.append(s)
        return out
    return {"types": p.get("types", []), "init": ds(p["init"]), "guard": p["guard"], "body": ds(p["body"])}


def source_types(flat_types, src_vars):
    """type claim for the source variables: union of Polar's types of a variable and of its
    renamed intermediate versions _<var><k> (the source variable holds all of them in turn)"""
    import re
    nt = numeric_types(flat_types)
    out = {}
    for x in src_vars:
        vals = set()
        found = x in nt
        if x in nt:
            vals |= set(nt[x])
        complete = True
        for v, vs in nt.items():
            if re.fullmatch(r"_" + re.escape(x) + r"\d+", v):
                vals |= set(vs)
        if found:
            out[x] = sorted(vals)
    return out


def tenv_coq(tdict):
    if not tdict:
        return "([] : tenv)"
    return P.lst([f'("{v}", {P.lst([P.q_coq(q) for q in vals])})' for v, vals in sorted(tdict.items())])


SRC_HEADER = ("From Coq Require Import List String QArith Qcanon ZArith.\n"
              "From Polar Require Import Qcx CRing ExpPoly ClosedForm Dist Syntax Sem Types Poly Pipeline Wp SrcWp SrcPipeline Search.\n"
              "Import ListNotations.\nOpen Scope string_scope.\n"
              "Definition cm0 : string -> list Qc -> nat -> Qc := fun _ _ _ => 0%Qc.\n")


def eval_expr(e, env):
    k = e[0]
    if k == "const":
        return e[1]
    if k == "var":
        return env[e[1]]
    if k == "add":
        return eval_expr(e[1], env) + eval_expr(e[2], env)
    if k == "sub":
        return eval_expr(e[1], env) - eval_expr(e[2], env)
    if k == "mul":
        return eval_expr(e[1], env) * eval_expr(e[2], env)
    if k == "neg":
        return -eval_expr(e[1], env)
    if k == "pow":
        return eval_expr(e[1], env) ** e[2]
    raise ValueError(e)


def expr_vars(e):
    if e[0] == "var":
        return {e[1]}
    if e[0] in ("add", "sub", "mul"):
        return expr_vars(e[1]) | expr_vars(e[2])
    if e[0] in ("neg", "pow"):
        return expr_vars(e[1])
    return set()


def infer_src_types(p, cap=24):
    """untrusted cartesian fixed point over the (desugared) source program, conditions ignored;
    the Coq validator check_types_src decides whether the result is sound"""
    import itertools
    assigns = []

    def collect(b, init):
        for s in b:
            if s[0] == "assign":
                assigns.append((s[1], s[2], init))
            elif s[0] == "if":
                for _, bb in s[1]:
                    collect(bb, init)
                if s[2]:
                    collect(s[2], init)
    collect(p["init"], True)
    collect(p["body"], False)
    allv = {x for x, _, _ in assigns}
    T = {x: set() for x in allv}
    dead = set()

    def rhs_vals(r):
        if r[0] == "draw":
            d = r[1]
            if d[0] == "bern":
                return {Fraction(0), Fraction(1)}
            if d[0] == "cat":
                return {Fraction(i) for i in range(len(d[1]))}
            if d[0] == "unif":
                return {Fraction(i) for i in range(d[1], d[2] + 1)}
            return None
        vals = set()
        for _, e in r[1]:
            vs = sorted(expr_vars(e))
            if any(v in dead or v not in T for v in vs):
                return None
            if any(not T[v] for v in vs):
                continue
            n = 1
            for v in vs:
                n *= len(T[v])
            if n > 4000:
                return None
            for combo in itertools.product(*[sorted(T[v]) for v in vs]):
                vals.add(eval_expr(e, dict(zip(vs, combo))))
        return vals

    # initial block: flow-sensitive (each assignment sees the value sets established so far)
    L = {}
    saveT, savedead = T, dead
    for x, r, is_init in assigns:
        if not is_init:
            continue
        T = L
        dead = set(allv) - set(L)
        vals = rhs_vals(r)
        T, dead = saveT, savedead
        if vals is None or len(vals) > cap or not vals:
            L.pop(x, None)
        else:
            L[x] = set(vals)
    for x in allv:
        if x in L:
            T[x] = set(L[x])
    for x, r, is_init in assigns:
        if is_init and x not in L:
            dead.add(x)
    for _ in range(60):
        changed = False
        for x, r, is_init in assigns:
            if x in dead or is_init:
                continue
            vals = rhs_vals(r)
            if vals is None or len(T[x] | vals) > cap:
                dead.add(x)
                changed = True
                continue
            if not vals <= T[x]:
                T[x] |= vals
                changed = True
        if not changed:
            break
    else:
        return {}
    return {x: sorted(vs) for x, vs in T.items() if x not in dead and vs}
