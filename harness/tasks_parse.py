"""Worker tasks for C19: run the REAL parser (inputparser.Parser) on texts and dump the parsed
Program in a canonical structural form (exact rationals, expanded sorted polynomials, generated
names alpha-normalised, else-if chains flattened), evaluate parsed arithmetic at rational points,
and run the full analysis on a text."""
from fractions import Fraction

import sympy as sp
import exppoly


def _c19_settings():
    import settings
    settings.cond2arithm = False
    settings.transform_categoricals = False
    settings.trivial_guard = False
    settings.disable_type_inference = False
    settings.numeric_roots = False
    settings.numeric_croots = False
    settings.numeric_eps = 1e-10
    settings.exact_func_moments = True
    settings.type_fp_iterations = 100
    return settings


def _c19_sym(e):
    """symengine/sympy/str/number -> sympy expression with every Float replaced by the exact
    decimal rational of its printed form (floats are never compared)"""
    e = sp.sympify(e)
    fl = list(e.atoms(sp.Float))
    if fl:
        e = e.xreplace({f: sp.Rational(str(f)) for f in fl})
    return e


def _c19_poly(e):
    e = sp.expand(_c19_sym(e))
    syms = sorted(e.free_symbols, key=str)
    try:
        if not syms:
            if not e.is_Rational:
                return ["nonpoly", str(e)]
            terms = [((), e)] if e != 0 else []
        else:
            P = sp.Poly(e, *syms)
            terms = P.terms()
        out = []
        for mon, co in terms:
            if not co.is_Rational:
                return ["nonpoly", str(e)]
            out.append([f"{co.p}/{co.q}", [[str(s), int(k)] for s, k in zip(syms, mon) if k]])
        out.sort(key=lambda t: (t[1], t[0]))
        return out
    except Exception:
        return ["nonpoly", str(e)]


def _c19_cond(c):
    name = type(c).__name__
    if name == "TrueCond":
        return ["true"]
    if name == "FalseCond":
        return ["false"]
    if name == "Atom":
        a, op, b = _c19_sym(c.poly1), str(c.cop), _c19_sym(c.poly2)
        if op in (">", ">="):
            a, b = b, a
            op = "<" if op == ">" else "<="
        return ["atom", _c19_poly(a - b), op]
    if name == "Not":
        return ["not", _c19_cond(c.cond)]
    if name == "And":
        return ["and", _c19_cond(c.cond1), _c19_cond(c.cond2)]
    if name == "Or":
        return ["or", _c19_cond(c.cond1), _c19_cond(c.cond2)]
    return ["unknown-cond", name]


def _c19_dist(d):
    name = type(d).__name__
    if name == "DiscreteUniform":
        return ["draw", name, [_c19_poly(d.values[0]), _c19_poly(d.values[-1])]]
    params = []
    for k, v in d.__dict__.items():
        if isinstance(v, (list, tuple)):
            params += [_c19_poly(x) for x in v]
        else:
            try:
                params.append(_c19_poly(v))
            except Exception:
                params.append(["nonpoly", str(v)])
    return ["draw", name, params]


def _c19_stmt(s):
    name = type(s).__name__
    if name == "IfStatem":
        brs = [[_c19_cond(c), _c19_block(b)] for c, b in zip(s.conditions, s.branches)]
        els = _c19_block(s.else_branch) if s.else_branch else None
        while els is not None and len(els) == 1 and els[0][0] == "if":
            brs = brs + els[0][1]
            els = els[0][2]
        return ["if", brs, els]
    if name == "PolyAssignment":
        cond_extra = type(s.condition).__name__ != "TrueCond"
        r = ["choice", [[_c19_poly(p), _c19_poly(e)] for p, e in zip(s.probabilities, s.polynomials)]]
        if cond_extra:
            r.append(["conditioned", _c19_cond(s.condition), str(s.default)])
        return ["assign", str(s.variable), r]
    if name == "DistAssignment":
        return ["assign", str(s.variable), _c19_dist(s.distribution)]
    if name == "FunctionalAssignment":
        return ["assign", str(s.variable), ["func", str(s.func), str(s.argument)]]
    return ["unknown-stmt", name]


def _c19_block(b):
    return [_c19_stmt(s) for s in b]


def _c19_dump(program):
    import textgen
    types = []
    for v, t in program.typedefs.items():
        vals = getattr(t, "values", None)
        if vals is not None:
            types.append([str(v), sorted(_c19_poly(x) for x in vals)])
        else:
            types.append([str(v), type(t).__name__])
    types.sort()
    d = {"types": types, "init": _c19_block(program.initial), "guard": _c19_cond(program.loop_guard),
         "body": _c19_block(program.loop_body)}
    return textgen.alpha_normalise(d)


def _c19_classify(e):
    """error kinds: lark-syntax | parse-exception | constructor-error | other:<type>"""
    from lark.exceptions import UnexpectedInput, VisitError, LarkError
    from inputparser.exceptions import ParseException
    orig = e
    wrapped = False
    if isinstance(e, VisitError):
        orig = e.orig_exc
        wrapped = True
    name = type(orig).__name__
    if isinstance(orig, UnexpectedInput):
        kind = "lark-syntax"
    elif isinstance(orig, ParseException):
        kind = "parse-exception"
    elif isinstance(orig, RuntimeError):
        kind = "constructor-error"
    elif isinstance(orig, LarkError):
        kind = "lark-syntax"
    else:
        kind = "other:" + name
    return {"kind": kind, "etype": name, "wrapped": wrapped, "msg": str(orig)[:200]}


def _c19_parse_one(text):
    from inputparser import Parser
    try:
        program = Parser().parse_string(text)
    except BaseException as e:  # noqa
        return {"err": _c19_classify(e)}
    try:
        return {"ok": _c19_dump(program), "str": str(program)[:600]}
    except BaseException as e:  # noqa
        return {"dump_error": f"{type(e).__name__}: {e}"[:300], "str": str(program)[:600]}


def task_c19_parse(task):
    _c19_settings()
    return {"results": [_c19_parse_one(t) for t in task["texts"]]}


def _c19_rat(v):
    v = sp.nsimplify(_c19_sym(v), rational=True) if not getattr(v, "is_Rational", False) else v
    if getattr(v, "is_Rational", False):
        return f"{v.p}/{v.q}"
    return "?" + str(v)


def task_c19_eval(task):
    """exprs: arithmetic texts; each is parsed by Polar as the right-hand side of an assignment;
    returns per expression the polynomial dump of what PolyAssignment stored and its exact values at
    the given rational points"""
    _c19_settings()
    from inputparser import Parser
    exprs = task["exprs"]
    points = task["points"]
    out = []
    for txt in exprs:
        text = f"while true:\n    r = {txt}\nend\n"
        try:
            program = Parser().parse_string(text)
            a = program.loop_body[0]
            e = _c19_sym(a.polynomials[0])
            vals = []
            for pt in points:
                sub = {sp.Symbol(k): sp.Rational(v) for k, v in pt.items()}
                try:
                    v = e.xreplace(sub)
                    v = exppoly.exact(v) if not v.is_Rational else v
                    vals.append(f"{v.p}/{v.q}" if v.is_Rational else "?" + str(v))
                except Exception as ex:  # noqa
                    vals.append("?" + type(ex).__name__)
            out.append({"poly": _c19_poly(e), "values": vals, "str": str(a.polynomials[0])})
        except BaseException as ex:  # noqa
            out.append({"err": _c19_classify(ex)})
    return {"results": out}


def task_c19_analyze(task):
    """text, goals (monomial strings), nmax -> exact values of Polar's closed forms at n = 0..nmax"""
    _c19_settings()
    from inputparser import Parser
    from program import normalize_program
    from recurrences import RecBuilder
    from recurrences.solver import RecurrenceSolver
    import symengine
    res = {}
    try:
        program = Parser().parse_string(task["text"])
    except BaseException as e:  # noqa
        return {"stage": "parse", "err": _c19_classify(e)}
    try:
        program = normalize_program(program)
        rb = RecBuilder(program)
    except BaseException as e:  # noqa
        return {"stage": "normalize", "err": {"etype": type(e).__name__, "msg": str(e)[:300]}}
    n = sp.Symbol("n", integer=True)
    goals = {}
    for g in task["goals"]:
        try:
            m = symengine.sympify(g)
            recs = rb.get_recurrences(m)
            solver = RecurrenceSolver(recs)
            cf = sp.sympify(solver.get(m))
            vals = []
            for i in range(task.get("nmax", 6) + 1):
                v = cf.subs(n, i)
                v = exppoly.exact(v) if not v.is_Rational else v
                vals.append(f"{v.p}/{v.q}" if v.is_Rational else "?" + str(v))
            goals[g] = {"values": vals, "cf": str(cf)[:300], "exact": bool(solver.is_exact)}
        except BaseException as e:  # noqa
            goals[g] = {"err": {"etype": type(e).__name__, "msg": str(e)[:300]}}
    res["goals"] = goals
    return res


def task_c19_goals(task):
    """goal strings -> what GoalParser.parse makes of them (kind, canonical polynomial dumps) or the error"""
    from inputparser import GoalParser
    out = []
    for g in task["goals"]:
        try:
            kind, data = GoalParser.parse(g)
            out.append({"ok": [str(kind), [(_c19_poly(x) if not isinstance(x, int) else x) for x in data]]})
        except BaseException as e:  # noqa
            out.append({"err": _c19_classify(e)})
    return {"results": out}
